#!/usr/bin/env python3
"""Regenerate /verif/MANIFEST.json from the table below (kept valid against the schema at all times)."""
import json, os

HERE = os.path.dirname(os.path.dirname(os.path.abspath(__file__)))

CHECKS = {
    "C01": dict(level="exploration", technique="deterministic simulation (seeded clock/event-time search, exact-time delivery ledger + Kepler effect oracle, task-retry fault)",
                text="seeded search over (start instant, step, event time, event kind, events per step, engines) with real scenarios; exact integer-time oracle for the delivery ledger, independent Kepler solution for the effect of impulses; sampled, not exhaustive",
                note="trusts python integer/datetime arithmetic; two-body truth for the effect oracle; Julian-date resolution band of 100 us around a boundary accepts either adjacent step for times not exactly on it"),
    "C02": dict(level="exploration", technique="deterministic simulation (network/geometry configuration search with run-built slew history, plus taskings issued by the harness acting as tasking engine; independent three-valued geometry oracle at every collectObservations call)",
                text="full tasking runs over all sensor kinds, hosts, masks, FoVs, slew rates and ranges with targets placed by inverse geometry (azimuth seam, zenith, mask and FoV edges); every collectObservations call is captured (sensor state before the call, pointing, primary and background targets, returned records) and judged by rsim's own geodetic/topocentric geometry, FoV, mask, slew, line-of-sight, radar-equation and optical rules with guard bands",
                note="trusts the repo's eci2ecef at the exact epoch (C04); low-precision analytic Sun with a 5e-4 rad band; inside runs the engine only tasks pairs predicted visible, so most other miss reasons come from the 0-8 taskings the harness issues itself at the final epoch (any sensor to any target, drawn pointing error and prior mount state)"),
    "C03": dict(level="exploration", technique="deterministic simulation (step-size / run-split / start-shift relations, closed-form Kepler reference, batch re-propagation monitor)",
                text="relations between ways of driving the clock (step dt vs dt/m, one call vs several, start shifted by k steps) on real truth runs, closed-form Kepler and conservation under two-body, per-call batch/bulk consistency monitor; sampled",
                note="tolerances 1e-4 km / 1e-7 km/s for relations, 1e-3 km for Kepler over <= 1 day; trusts the force model itself (C13)"),
    "C05": dict(level="exploration", technique="deterministic simulation (seeded clock-configuration search, exact-time oracle)",
                text="seeded search over (start instant, step, output step, requested durations, number of calls) with the real Scenario run end to end under the simulator; exact integer-time oracle; sampled, not exhaustive",
                note="trusts python datetime/integer arithmetic as the calendar; synthetic EOP rows outside 2014-2022; two-body truth only"),
    "C07": dict(level="exploration", technique="deterministic simulation (run-time invariants at Decision/Reward endpoints of real runs, brute-force assignment oracle, relabelled twin runs)",
                text="every Decision.calculate / Reward.calculate / normalisation call of generated runs (all policies, all reward classes, membership changes, priorities) is judged by brute force over all complete assignments (<= 5x4) and reference formulas; twin runs with permuted agent ids must give the permuted decisions",
                note="matrix shapes and values are those runs produce; small-scope exhaustive enumeration over arbitrary matrices is outside this technique; ties accepted at 1e-12; relabel twins compared only while the optimum is unique and the twin's reward matrix is the relabelled one (a difference with bit-identical prior states is a violation)"),
    "C08": dict(level="exploration", technique="deterministic simulation (seeded and per-batch-exhaustive completion-order / execution-order / task-retry exploration; conservation + cross-schedule equality oracles)",
                text="each generated network case is run under a base schedule and a family of alternative schedules (every permutation of each batch with <= 4 jobs, LIFO, lazy/shuffled execution, random joint orders, task retry); per-run bookkeeping conservation and cross-schedule equality of everything a step produces",
                note="noise is a function of (run seed, job ordinal); estimates compared at 1e-9 relative, posteriors of the same observations stacked in another order up to 100 eps cond(S) |update| (later steps then not compared); rounding-tie decision flips counted indeterminate; one known finding (F11) keyed on sensors tasked in several jobs"),
    "C09": dict(level="fault_enumeration", technique="deterministic simulation with fault injection (kill / interrupt / DB error at chosen statements and commits, worker death; SQL auditor on the durable file; commit-prefix oracle)",
                text="clean runs over step/output-step/run-splitting/membership configurations are audited by SQL on a fresh connection; the same case is re-run with a fault injected at sampled (quick) or all (thorough, short cases) database statements and commits - hard kill in a forked process, KeyboardInterrupt, OperationalError (I/O error, disk full, locked), simulated worker death - and the durable state must equal the clean run's state after the last completed commit",
                note="faults land between statements / before commits (SQLite's internal atomic commit is trusted); expected rows derive from in-memory states captured after every step"),
    "C10": dict(level="exploration", technique="deterministic simulation (differential runs over configuration, run-splitting, schedule and retry variants; bit-equality oracle)",
                text="families of scenarios sharing dynamics and initial states but differing in estimation/tasking/sensor/noise/output/splitting/schedule/agent-set are run under the simulator; truth compared bit for bit",
                note="bit equality of in-memory truth after every step and of stored truth rows at common epochs; sampled families"),
    "C11": dict(level="exploration", technique="deterministic simulation (seeded start/step/site search, exact-epoch inverse transform oracle)",
                text="real runs over start instants at 1 s granularity, steps 2-3600 s, up to ~1.5 days, arbitrary sites; each epoch judged against the closed-form ellipsoid point using the exact epoch computed by the harness",
                note="trusts the repo's eci2ecef at the exact instant (C04 is about the transform); 1 m / 1e-7 km/s tolerances"),
    "C15": dict(level="exploration", technique="deterministic simulation (one or two thrust intervals vs. step grid search, task retry; piecewise reference integration oracle)",
                text="truth runs under special perturbations with one finite burn / maneuver (40 %: a second one on the same target, back to back, after a pause or steps later) placed relative to the step grid (inside a step, spanning steps, on boundaries, at the scenario start), judged at every epoch against a piecewise DOP853 reference that thrusts only inside the interval with rsim's own thrust formulas",
                note="trusts the repo's non-thrust acceleration (C13) and SciPy DOP853; tolerance scaled to the repo integrator's own accuracy"),
    "C16": dict(level="exploration", technique="deterministic simulation (job-completion-order exploration and importer-file angle re-representation / row shuffling; per-update monitor with independent wrap and circular-mean references)",
                text="the order of simultaneous observations (completion order of task jobs, row order of an importer file) and the representation of stored azimuths (+-k turns, signed range) are the explored dimensions; each UKF update is judged as a function of (prior, observations), and every update is monitored against rsim's own wrapped difference and weighted circular mean; targets are placed on the 0/360 and 180 degree azimuths",
                note="helper identities are exercised on values runs produce, not on all inputs; posterior tolerance 1e-9 relative + 100*eps*cond(S)*|update|, updates with cond(S) > 4e10 not judged"),
    "C17": dict(level="exploration", technique="deterministic simulation (run-built innovation histories with varying dimension and harness-driven histories up to 50 steps of dimension 1-8; lock-step reference detector; scaled-innovation monotonicity probe; task retry)",
                text="full estimation runs with each detector kind and drawn thresholds / windows / fading factors over mixed optical/radar networks and unplanned impulses; a reference detector holding the (NIS, dimension) history is stepped on exactly the innovations and covariances the filter passes to the real detector",
                note="scipy chi2.isf is the bound; near-bound calls indeterminate; histories up to 8 (quick) / 16 (thorough) steps inside runs, up to 30 / 50 steps for detector objects the harness drives directly; fading-memory dof with varying dimension accepts three readings"),
    "C18": dict(level="exploration", technique="deterministic simulation (end-to-end MMAE runs driven by stored history and impulse size; reference Bayes rule in log space and mixture moments per adaptive update)",
                text="full runs in which an unplanned impulse triggers detection, hypothesis generation from the stored observation/estimate history and several SMM / GPB1 updates until pruning or convergence; every adaptive update is compared with rsim's own prior x Gaussian-likelihood rule (with the documented underflow fallback), mixture mean and moment-matched covariance, and the hand-over at closure",
                note="per-model UKF updates trusted here (C16 monitors them); model counts 2..31 as produced by gap/interval arithmetic; Lambert failures during initialisation are counted, not judged"),
    "C19": dict(level="fault_enumeration", technique="deterministic simulation with fault injection on external data (two-phase runs; importer file with seeded gaps / extras / duplicates / shuffles; per-step state, error-type and file-hash oracles)",
                text="phase 1 produces a real output database, rsim.importer mutates it into an importer file (gaps at chosen or - thorough - all (agent, epoch) cells, dropped agents, 1-20 unrelated agents, duplicated and shuffled rows), phase 2 runs with targets/sensors/observations imported; imported states must be bit-equal to the rows, a gap must stop the run with MissingEphemerisError at that step and never otherwise, imported observations must reach exactly their target's update, the file hash must not change",
                note="importer schema = output schema of the same code; run as root so read-only-ness is judged by file hash, not permissions"),
    "C20": dict(level="exploration", technique="deterministic simulation (noise-off end-to-end IOD runs; radar sites placed by inverse geometry under the ground track so that the stored and the current observation are a drawn fraction of a period apart; truth-state oracle)",
                text="claimed for the orbit-determination clause: noise-off two-body runs in which an unplanned impulse arms IOD and the next radar observation triggers determineNewEstimateState on the stored history; the returned state must equal the truth, radar observations must invert to the true position, and the arcs actually solved must be reproduced by rsim's Kepler propagation",
                note="the Lambert clause over all arcs is a pure boundary-value statement and is not claimed (only visited arcs are checked); velocity tolerance includes the 40 us resolution of the Julian dates the time of flight is taken from"),
}

NA = {
    "C04": "pure stateless frame-conversion functions of (vector, date): no schedule, clock, fault or history can influence them; needs input-space generation, not simulation",
    "C06": "quantified over linear-Gaussian systems, which no simulated resonaate run ever is; would be a single-component differential test with no schedule, time or fault",
    "C12": "pure element/anomaly conversions evaluated once at configuration parsing; nothing for a scheduler, clock or fault to act on",
    "C13": "stateless acceleration function of (state, epoch, configuration); runs only revisit a handful of trajectory states and there is no interleaving, timing or fault to search",
    "C14": "pure geometric predicates quantified over input pairs, not over runs; the clauses that affect produced observations are decided inside C02",
}

ALL = [f"C{i:02d}" for i in range(1, 21)]


def main():
    present = [p for p in ALL if p in CHECKS and os.path.exists(os.path.join(HERE, "rsim", "checks", f"{p}.py"))]
    checks = []
    for p in present:
        c = CHECKS[p]
        checks.append({
            "property_id": p,
            "quick_cmd": f"cd /verif && /venv/bin/python -m rsim check {p} --tier quick",
            "thorough_cmd": f"cd /verif && /venv/bin/python -m rsim check {p} --tier thorough",
            "evidence_file": f"/verif/evidence/{p}.json",
            "replay_cmd_template": "cd /verif && /venv/bin/python -m rsim replay {path}",
            "engine": "rsim",
            "level_claimed": {"category": c["level"], "text": c["text"], "design_ref": f"DESIGN.md section 4, {p}"},
            "level_note": c["note"],
            "technique": c["technique"],
        })
    na = [{"property_id": p, "reason": r} for p, r in NA.items()]
    for p in ALL:
        if p not in present and p not in NA:
            na.append({"property_id": p, "reason": "not claimed yet: the simulation check for this property is still being built (see DESIGN.md section 5a)"})
    na.sort(key=lambda d: d["property_id"])
    man = {
        "version": 1,
        "setup_cmd": "cd /verif && /venv/bin/python -m rsim selftest --quick",
        "hooks": {
            "guard": "RESONAATE_VERIF",
            "enable": "no source hooks: rsim replaces sys.modules['ray'] with rsim.simray before importing resonaate from /repo/src and wraps public methods from outside; RESONAATE_VERIF=1 is exported by rsim.boot but never read by the repo",
            "baseline_off_cmd": "cd /repo && /venv/bin/python -m pytest -ra -q -p no:cacheprovider --timeout=900 --continue-on-collection-errors",
            "source_commits": [],
            "add_only": True,
        },
        "engines": [{"name": "rsim", "path": "/verif/rsim", "serves_properties": present,
                     "kind_free_text": "deterministic simulation with fault injection: in-process Ray stub with seeded scheduler (completion order, execution mode, task retry, worker death), DB fault seam, fork-per-run driver, shrinking and replay files"}],
        "checks": checks,
        "not_applicable": na,
        "notes": "See DESIGN.md. Exit 0 = held on everything explored; exit 1 + VIOLATION line; exit 2 = harness error (no verdict). known_findings.json lists genuine defects (fixed or known).",
    }
    with open(os.path.join(HERE, "MANIFEST.json"), "w") as f:
        json.dump(man, f, indent=1)
    print("claimed:", present)


if __name__ == "__main__":
    main()
