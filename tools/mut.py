#!/usr/bin/env python3
"""Ad-hoc sensitivity probe: apply one textual replacement to a scratch worktree of /repo and run a check on it.
usage: tools/mut.py <check> <relative file> <old> <new> [extra rsim args...]"""
import os, subprocess, sys, tempfile

check, rel, old, new = sys.argv[1:5]
extra = sys.argv[5:]
wt = tempfile.mkdtemp(prefix="rsim-mut-", dir="/tmp")
os.rmdir(wt)
subprocess.run(["git", "-C", "/repo", "worktree", "add", "-q", "--detach", wt, "HEAD"], check=True)
try:
    p = os.path.join(wt, rel)
    s = open(p).read()
    if s.count(old) != 1:
        print(f"pattern occurs {s.count(old)} times in {rel}")
        sys.exit(3)
    open(p, "w").write(s.replace(old, new))
    env = dict(os.environ, RSIM_REPO=wt)
    rc = subprocess.run(["/venv/bin/python", "-m", "rsim", "check", check, "--no-evidence", *extra], cwd="/verif", env=env).returncode
finally:
    subprocess.run(["git", "-C", "/repo", "worktree", "remove", "--force", wt])
    subprocess.run(["git", "-C", "/repo", "worktree", "prune"])
sys.exit(rc)
