#!/usr/bin/env python3
"""Summarise /verif/seeded/*/meta.json into /verif/seeded/RESULTS.md."""
import glob, json, os

rows = []
desc = json.load(open("/verif/seeded/descriptions.json")) if os.path.exists("/verif/seeded/descriptions.json") else {}
for f in sorted(glob.glob("/verif/seeded/*/meta.json")):
    m = json.load(open(f))
    d = desc.get(m["name"], {})
    if d and (m.get("what") != d.get("what") or m.get("needs") != d.get("needs")):
        m["what"], m["needs"] = d.get("what", ""), d.get("needs", "")
        json.dump(m, open(f, "w"), indent=1)
    if d.get("history") and m.get("history") != d["history"]:
        m["history"] = d["history"]
        json.dump(m, open(f, "w"), indent=1)
    checks = "; ".join(f"{c}: {'CAUGHT' if r['caught'] else 'missed'}" + (f" ({r['summary'][0].split('violations by clause/key: ')[-1][:110]})" if r.get("summary") and r["caught"] else "") for c, r in m.get("checks", {}).items())
    rows.append((m["name"], m.get("breaks_property"), "yes" if m.get("confirmed") else "NO", m.get("what", ""), m.get("needs", ""), checks + (" -- " + m["history"] if m.get("history") else "")))
with open("/verif/seeded/RESULTS.md", "w") as out:
    out.write("# Seeded breaking changes (written by sub-agents that saw only the property text)\n\n"
              "Each change was confirmed in a scratch worktree by `tools/seedcheck.py`: demo passes on the unchanged tree, patch applies, the pinned suite still passes, demo fails with the change. "
              "Then the property's check (quick tier, 90 s budget) was run against the patched tree.\n\n"
              "| seed | property | confirmed | what it changes | what it needs to manifest | checks |\n|---|---|---|---|---|---|\n")
    for r in rows:
        out.write("| " + " | ".join(str(x).replace("|", "/").replace("\n", " ") for x in r) + " |\n")
print(open("/verif/seeded/RESULTS.md").read())
