#!/bin/bash
# Run every claimed check (quick tier by default) and print exit codes.  usage: tools/run_all.sh [tier] [seed]
tier=${1:-quick}; seed=${2:-0}
cd /verif
rc_all=0
for p in $(python3 -c "import json;print(' '.join(c['property_id'] for c in json.load(open('MANIFEST.json'))['checks']))"); do
  VERIF_SEED=$seed /venv/bin/python -m rsim check $p --tier $tier > /tmp/rsim-$p.log 2>&1; rc=$?
  echo "$p rc=$rc $(grep -c '^KNOWN-FINDING' /tmp/rsim-$p.log) known; $(tail -1 /tmp/rsim-$p.log | cut -c1-160)"
  [ $rc -ne 0 ] && rc_all=1
done
exit $rc_all
