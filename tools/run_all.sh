#!/bin/bash
# Run every claimed check (quick tier by default) and print exit codes.  usage: tools/run_all.sh [tier] [seed]
tier=${1:-quick}; seed=${2:-0}
cd "$(dirname "$0")/.."   # the tree this script belongs to (a vp-run snapshot or /verif)
out=$(mktemp -d /dev/shm/rsim-runall-XXXXXX)
rc_all=0
for p in $(python3 -c "import json;print(' '.join(c['property_id'] for c in json.load(open('MANIFEST.json'))['checks']))"); do
  VERIF_SEED=$seed /venv/bin/python -m rsim check $p --tier $tier > $out/$p.log 2>&1; rc=$?
  echo "$p rc=$rc $(grep -c '^KNOWN-FINDING' $out/$p.log) known; $(grep -E 'violation in run|HARNESS' $out/$p.log | head -1 | cut -c1-300) $(tail -1 $out/$p.log | cut -c1-160)"
  if [ $rc -ne 0 ]; then rc_all=1; cp $out/$p.log /dev/shm/rsim-failed-$p-$tier-$seed.log; fi   # keep the full log of a run that needs attention
done
rm -rf $out
exit $rc_all
