#!/usr/bin/env python3
"""Run the repo's pinned baseline suite (guard off) and compare with /root/.vp/BASELINE.json."""
import json, os, subprocess, sys, tempfile, xml.etree.ElementTree as ET

base = json.load(open("/root/.vp/BASELINE.json"))
out = tempfile.mkdtemp(prefix="rsim-baseline-", dir="/dev/shm")
xml = os.path.join(out, "junit.xml")
env = dict(os.environ)
env.pop("RESONAATE_VERIF", None)
cmd = base["cmd"].replace("<file>", xml)
p = subprocess.run(cmd, shell=True, env=env, capture_output=True, text=True)
passed = set()
for tc in ET.parse(xml).getroot().iter("testcase"):
    if not any(ch.tag in ("failure", "error", "skipped") for ch in tc):
        passed.add(f"{tc.get('classname')}::{tc.get('name')}")
want = set(base["stable_pass"])
missing = sorted(want - passed)
print(f"baseline stable_pass={len(want)} passed_now={len(passed)} missing={len(missing)}")
for m in missing[:40]:
    print("  MISSING", m)
import shutil; shutil.rmtree(out, ignore_errors=True)
sys.exit(1 if missing else 0)
