#!/usr/bin/env python3
"""Confirm a seeded breaking change and run the checks against it.

usage: tools/seedcheck.py <name> <patch.diff> <demo.py> <property> [check ids ...]
  1. scratch worktree of /repo HEAD: the demo must pass (exit 0)
  2. apply the patch: the pinned suite must pass exactly as the baseline, the demo must fail
  3. run the given checks (default: the property's own) against the patched tree (RSIM_REPO)
Writes /verif/seeded/<name>/{patch.diff,demo.py,meta.json}.  The worktree is removed afterwards.
"""
import json, os, shutil, subprocess, sys, tempfile, xml.etree.ElementTree as ET

name, patch, demo, prop = sys.argv[1:5]
checks = [prop] + [c for c in sys.argv[5:] if c != prop]
budget = os.environ.get("SEED_BUDGET", "90")
out = f"/verif/seeded/{name}"
os.makedirs(out, exist_ok=True)
wt = tempfile.mkdtemp(prefix="rsim-seed-", dir="/tmp")
os.rmdir(wt)
meta = {"name": name, "breaks_property": prop, "ran": []}


def sh(cmd, **kw):
    p = subprocess.run(cmd, shell=True, capture_output=True, text=True, **kw)
    meta["ran"].append({"cmd": cmd if len(cmd) < 300 else cmd[:300] + "...", "rc": p.returncode})
    return p


try:
    subprocess.run(["git", "-C", "/repo", "worktree", "add", "-q", "--detach", wt, "HEAD"], check=True)
    env = f"PYTHONPATH={wt}/src"
    p = sh(f"cd {wt} && {env} timeout 600 /venv/bin/python {os.path.abspath(demo)}")
    meta["demo_passes_on_unchanged_tree"] = p.returncode == 0
    if p.returncode != 0:
        meta["demo_unchanged_output"] = (p.stdout + p.stderr)[-800:]
    p = sh(f"git -C {wt} apply {os.path.abspath(patch)}")
    meta["patch_applies"] = p.returncode == 0
    if p.returncode == 0:
        base = json.load(open("/root/.vp/BASELINE.json"))
        xml = os.path.join(wt, "junit-seed.xml")
        sh(f"cd {wt} && {env} /venv/bin/python -m pytest -q -p no:cacheprovider --timeout=900 --continue-on-collection-errors --junitxml={xml}")
        passed = set()
        try:
            for tc in ET.parse(xml).getroot().iter("testcase"):
                if not any(ch.tag in ("failure", "error", "skipped") for ch in tc):
                    passed.add(f"{tc.get('classname')}::{tc.get('name')}")
        except Exception as exc:  # noqa: BLE001
            meta["suite_error"] = str(exc)
        missing = sorted(set(base["stable_pass"]) - passed)
        if 0 < len(missing) <= 5:
            # several suites run concurrently on this machine (ray-based tests are load sensitive): retry the few
            # missing tests on their own before judging
            still = []
            for tid in missing:
                mod, _, rest = tid.partition("::")
                cls_path = mod.split(".")
                node = "/".join(cls_path[:-1] if cls_path[-1][:1].isupper() else cls_path) + ".py"
                node += ("::" + cls_path[-1] if cls_path[-1][:1].isupper() else "") + "::" + rest
                p2 = sh(f"cd {wt} && {env} /venv/bin/python -m pytest -q -p no:cacheprovider --timeout=900 '{node}'")
                if p2.returncode != 0:
                    still.append(tid)
            meta["suite_retried"] = missing
            missing = still
        meta["suite_passes_with_change"] = not missing
        meta["suite_missing"] = missing[:10]
        p = sh(f"cd {wt} && {env} timeout 600 /venv/bin/python {os.path.abspath(demo)}")
        meta["demo_fails_with_change"] = p.returncode != 0
        meta["demo_output_with_change"] = (p.stdout + p.stderr)[-600:]
        meta["checks"] = {}
        for c in checks:
            p = sh(f"cd /verif && RSIM_REPO={wt} /venv/bin/python -m rsim check {c} --tier quick --no-evidence --budget {budget}")
            lines = [l for l in p.stdout.splitlines() if l.startswith("[rsim] violation in run") or l.startswith("VIOLATION") or "violations by clause" in l]
            meta["checks"][c] = {"exit": p.returncode, "caught": p.returncode == 1, "summary": [l[:400] for l in lines][:3]}
    shutil.copyfile(patch, os.path.join(out, "patch.diff"))
    shutil.copyfile(demo, os.path.join(out, "demo.py"))
finally:
    subprocess.run(["git", "-C", "/repo", "worktree", "remove", "--force", wt])
    subprocess.run(["git", "-C", "/repo", "worktree", "prune"])
meta["confirmed"] = bool(meta.get("demo_passes_on_unchanged_tree") and meta.get("patch_applies") and meta.get("suite_passes_with_change") and meta.get("demo_fails_with_change"))
json.dump(meta, open(os.path.join(out, "meta.json"), "w"), indent=1)
print(json.dumps({k: meta[k] for k in ("name", "confirmed", "demo_passes_on_unchanged_tree", "patch_applies", "suite_passes_with_change", "demo_fails_with_change") if k in meta}))
for c, r in meta.get("checks", {}).items():
    print(c, "CAUGHT" if r["caught"] else f"missed (exit {r['exit']})", r["summary"][:1])
