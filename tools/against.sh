#!/bin/bash
# usage: tools/against.sh <commit-ish|patch-file> <check-id> [extra rsim args]
# Runs a check against a scratch worktree of /repo (at a commit, or HEAD + patch); removes it afterwards.
set -u
what="$1"; pid="$2"; shift 2
wt=$(mktemp -d /tmp/rsim-wt-XXXXXX)
rmdir "$wt"
if [ -f "$what" ]; then
  git -C /repo worktree add -q --detach "$wt" HEAD || exit 3
  git -C "$wt" apply "$what" || { git -C /repo worktree remove --force "$wt"; exit 3; }
else
  git -C /repo worktree add -q --detach "$wt" "$what" || exit 3
fi
cd /verif
RSIM_REPO="$wt" /venv/bin/python -m rsim check "$pid" --no-evidence "$@"
rc=$?
git -C /repo worktree remove --force "$wt"
git -C /repo worktree prune
exit $rc
