"""Seeded scenario generator (swarm style).  Produces ScenarioConfig *dicts* - the public input
of ``buildScenarioFromConfigDict`` - from a ``random.Random``; never touches resonaate code."""

from __future__ import annotations

import datetime as dt
import math
import random

from .run import fmt_ts

MU = 398600.4418
RE = 6378.1363

EOP_FIRST = dt.datetime(2014, 1, 2)
EOP_LAST = dt.datetime(2022, 9, 30)


# ---------------------------------------------------------------------------------------------
# time
# ---------------------------------------------------------------------------------------------
def draw_start(rng: random.Random, lo: dt.datetime = EOP_FIRST, hi: dt.datetime = EOP_LAST, whole_minute_p: float = 0.1) -> dt.datetime:
    """Whole-second start instant; biased onto calendar edges."""
    mode = rng.random()
    span = int((hi - lo).total_seconds())
    t = lo + dt.timedelta(seconds=rng.randrange(span))
    if mode < whole_minute_p:
        t = t.replace(second=0)
    elif mode < 0.25:
        # shortly before a minute / hour / day / month / year boundary
        kind = rng.choice(["minute", "hour", "day", "month", "year", "feb"])
        back = rng.choice([1, 2, 3, 7, 30, 59, 61, 90, 600])
        if kind == "minute":
            edge = t.replace(second=0)
        elif kind == "hour":
            edge = t.replace(minute=0, second=0)
        elif kind == "day":
            edge = t.replace(hour=0, minute=0, second=0)
        elif kind == "month":
            edge = t.replace(day=1, hour=0, minute=0, second=0)
        elif kind == "year":
            edge = t.replace(month=1, day=1, hour=0, minute=0, second=0)
        else:
            y = t.year
            edge = dt.datetime(y, 3, 1)
        cand = edge - dt.timedelta(seconds=back)
        if lo <= cand <= hi:
            t = cand
    return t


def time_block(start: dt.datetime, step: int, nsteps: int, out_step: int | None = None) -> dict:
    return {
        "start_timestamp": fmt_ts(start),
        "stop_timestamp": fmt_ts(start + dt.timedelta(seconds=step * nsteps)),
        "physics_step_sec": step,
        "output_step_sec": out_step or step,
    }


# ---------------------------------------------------------------------------------------------
# orbits (own two-body formulas: generation only)
# ---------------------------------------------------------------------------------------------
def coe_to_rv(a, e, inc, raan, argp, nu):
    p = a * (1 - e * e)
    r = p / (1 + e * math.cos(nu))
    rp = (r * math.cos(nu), r * math.sin(nu), 0.0)
    k = math.sqrt(MU / p)
    vp = (-k * math.sin(nu), k * (e + math.cos(nu)), 0.0)
    cO, sO, ci, si, cw, sw = math.cos(raan), math.sin(raan), math.cos(inc), math.sin(inc), math.cos(argp), math.sin(argp)
    R = [
        [cO * cw - sO * sw * ci, -cO * sw - sO * cw * ci, sO * si],
        [sO * cw + cO * sw * ci, -sO * sw + cO * cw * ci, -cO * si],
        [sw * si, cw * si, ci],
    ]
    pos = [sum(R[i][j] * rp[j] for j in range(3)) for i in range(3)]
    vel = [sum(R[i][j] * vp[j] for j in range(3)) for i in range(3)]
    return pos, vel


def draw_orbit(rng: random.Random, regime: str | None = None, emax: float = 0.7):
    regime = regime or rng.choice(["leo", "leo", "meo", "geo", "heo", "xgeo"])
    if regime == "leo":
        a = RE + rng.uniform(400, 1800)
        e = rng.uniform(0, 0.02)
    elif regime == "meo":
        a = RE + rng.uniform(8000, 25000)
        e = rng.uniform(0, 0.2)
    elif regime == "geo":
        a = 42164.0 + rng.uniform(-50, 50)
        e = rng.uniform(0, 0.01)
    elif regime == "xgeo":
        a = rng.uniform(45000, 60000)
        e = rng.uniform(0, 0.1)
    else:
        e = rng.uniform(0.3, emax)
        rp = RE + rng.uniform(500, 3000)
        a = rp / (1 - e)
    inc = math.radians(rng.choice([rng.uniform(0, 180), rng.uniform(0, 5), rng.uniform(95, 100), 63.4, rng.uniform(175, 180)]))
    raan = rng.uniform(0, 2 * math.pi)
    argp = rng.uniform(0, 2 * math.pi)
    nu = rng.uniform(0, 2 * math.pi)
    pos, vel = coe_to_rv(a, e, inc, raan, argp, nu)
    return {"a": a, "e": e, "inc": inc, "raan": raan, "argp": argp, "nu": nu, "pos": pos, "vel": vel, "regime": regime}


def eci_target(tid: int, pos, vel, name=None, **platform) -> dict:
    plat = {"type": "spacecraft"}
    plat.update(platform)
    return {"id": tid, "name": name or f"T{tid}", "platform": plat,
            "state": {"type": "eci", "position": [float(x) for x in pos], "velocity": [float(x) for x in vel]}}


# ---------------------------------------------------------------------------------------------
# sensors
# ---------------------------------------------------------------------------------------------
def sensor_block(kind: str, rng: random.Random | None = None, coarse: bool = False, **over) -> dict:
    if kind == "optical":
        cov = [[1e-6 if coarse else 3e-13, 0.0], [0.0, 1e-6 if coarse else 3e-13]]
        s = {"type": "optical", "covariance": cov, "slew_rate": 20.0, "azimuth_range": [0.0, 359.9999],
             "elevation_range": [1.0, 89.9999], "efficiency": 0.98, "aperture_diameter": 1.0}
    else:
        if coarse:
            cov = [[1e-6, 0, 0, 0], [0, 1e-6, 0, 0], [0, 0, 1.0, 0], [0, 0, 0, 1e-4]]
        else:
            cov = [[1.2e-11, 0, 0, 0], [0, 1.2e-11, 0, 0], [0, 0, 8.7e-10, 0], [0, 0, 0, 4e-12]]
        s = {"type": kind, "covariance": cov, "slew_rate": 180.0, "azimuth_range": [0.0, 359.9999],
             "elevation_range": [1.0, 89.9999], "efficiency": 0.95, "aperture_diameter": 50.0,
             "tx_power": 3.2e7, "tx_frequency": 6.5e8, "min_detectable_power": 4.7e-18}
    s.update(over)
    return s


def ground_sensor(sid: int, lat: float, lon: float, alt: float, sensor: dict, name=None) -> dict:
    return {"id": sid, "name": name or f"S{sid}", "platform": {"type": "ground_facility"},
            "state": {"type": "lla", "latitude": lat, "longitude": lon, "altitude": alt}, "sensor": sensor}


def space_sensor(sid: int, pos, vel, sensor: dict, name=None) -> dict:
    return {"id": sid, "name": name or f"S{sid}", "platform": {"type": "spacecraft"},
            "state": {"type": "eci", "position": [float(x) for x in pos], "velocity": [float(x) for x in vel]}, "sensor": sensor}


def draw_site(rng: random.Random):
    mode = rng.random()
    if mode < 0.1:
        lat = rng.choice([89.9, -89.9, 85.0, -85.0, 0.0])
    else:
        lat = rng.uniform(-80, 80)
    if rng.random() < 0.15:
        lon = rng.choice([180.0, -180.0, 179.999, -179.999, 0.0, 359.0 - 360.0])
    else:
        lon = rng.uniform(-180, 180)
    alt = rng.choice([0.0, rng.uniform(0, 4.5), rng.uniform(0.0, 0.5)])
    return lat, lon, alt


# ---------------------------------------------------------------------------------------------
# engines / estimation
# ---------------------------------------------------------------------------------------------
METRICS = ["FisherInformation", "ShannonInformation", "KLDivergence", "PositionCovarianceTrace", "VelocityCovarianceTrace",
           "PositionCovarianceDeterminant", "VelocityCovarianceDeterminant", "PositionMaxEigenValue", "VelocityMaxEigenValue",
           "PositionCovarianceReduction", "VelocityCovarianceReduction", "Range", "SlewDistanceMinimization", "SlewDistanceMaximization",
           "SlewTimeMinimization", "SlewTimeMaximization", "TimeSinceObservation", "LyapunovStability"]


def engine_block(eid: int, sensors: list[dict], targets: list[dict], decision="MunkresDecision", reward=None, decision_extra=None) -> dict:
    reward = reward or {"name": "SimpleSummationReward", "metrics": [{"name": "TimeSinceObservation"}]}
    d = {"name": decision}
    if decision_extra:
        d.update(decision_extra)
    return {"unique_id": eid, "reward": reward, "decision": d, "sensors": sensors, "targets": targets}


def estimation_block(rng: random.Random | None = None, dynamics="two_body", **over) -> dict:
    sf = {"name": "unscented_kalman_filter", "dynamics_model": dynamics}
    sf.update(over)
    return {"sequential_filter": sf}


def base_config(start: dt.datetime, step: int, nsteps: int, engines: list[dict], out_step=None, model="two_body",
                integrator="RK45", truth_only=False, seed=1, estimation=None, events=None, background=True,
                realtime_obs=True, tgt_realtime=True, sen_realtime=True, geopotential=None, perturbations=None,
                noise=None) -> dict:
    cfg = {
        "time": time_block(start, step, nsteps, out_step),
        "noise": noise or {"init_position_std_km": 1e-3, "init_velocity_std_km_p_sec": 1e-6,
                           "filter_noise_type": "continuous_white_noise", "filter_noise_magnitude": 3e-14, "random_seed": seed},
        "propagation": {"propagation_model": model, "integration_method": integrator, "station_keeping": False,
                        "target_realtime_propagation": tgt_realtime, "sensor_realtime_propagation": sen_realtime,
                        "truth_simulation_only": truth_only},
        "observation": {"background": background, "realtime_observation": realtime_obs},
        "geopotential": geopotential or {"model": "egm96.txt", "degree": 2, "order": 0},
        "perturbations": perturbations or {"third_bodies": [], "solar_radiation_pressure": False, "general_relativity": False},
        "estimation": estimation or estimation_block(dynamics=model),
        "engines": engines,
        "events": events or [],
    }
    return cfg
