"""Seeded scenario generator (swarm style).  Produces ScenarioConfig *dicts* - the public input
of ``buildScenarioFromConfigDict`` - from a ``random.Random``; never touches resonaate code."""

from __future__ import annotations

import datetime as dt
import math
import random

from .run import fmt_ts

MU = 398600.4418
RE = 6378.1363

EOP_FIRST = dt.datetime(2014, 1, 2)
EOP_LAST = dt.datetime(2022, 9, 30)


# ---------------------------------------------------------------------------------------------
# time
# ---------------------------------------------------------------------------------------------
def draw_start(rng: random.Random, lo: dt.datetime = EOP_FIRST, hi: dt.datetime = EOP_LAST, whole_minute_p: float = 0.1) -> dt.datetime:
    """Whole-second start instant; biased onto calendar edges."""
    mode = rng.random()
    span = int((hi - lo).total_seconds())
    t = lo + dt.timedelta(seconds=rng.randrange(span))
    if mode < whole_minute_p:
        t = t.replace(second=0)
    elif mode < 0.25:
        # shortly before a minute / hour / day / month / year boundary
        kind = rng.choice(["minute", "hour", "day", "month", "year", "feb"])
        back = rng.choice([1, 2, 3, 7, 30, 59, 61, 90, 600])
        if kind == "minute":
            edge = t.replace(second=0)
        elif kind == "hour":
            edge = t.replace(minute=0, second=0)
        elif kind == "day":
            edge = t.replace(hour=0, minute=0, second=0)
        elif kind == "month":
            edge = t.replace(day=1, hour=0, minute=0, second=0)
        elif kind == "year":
            edge = t.replace(month=1, day=1, hour=0, minute=0, second=0)
        else:
            y = t.year
            edge = dt.datetime(y, 3, 1)
        cand = edge - dt.timedelta(seconds=back)
        if lo <= cand <= hi:
            t = cand
    return t


def time_block(start: dt.datetime, step: int, nsteps: int, out_step: int | None = None) -> dict:
    return {
        "start_timestamp": fmt_ts(start),
        "stop_timestamp": fmt_ts(start + dt.timedelta(seconds=step * nsteps)),
        "physics_step_sec": step,
        "output_step_sec": out_step or step,
    }


# ---------------------------------------------------------------------------------------------
# orbits (own two-body formulas: generation only)
# ---------------------------------------------------------------------------------------------
def coe_to_rv(a, e, inc, raan, argp, nu):
    p = a * (1 - e * e)
    r = p / (1 + e * math.cos(nu))
    rp = (r * math.cos(nu), r * math.sin(nu), 0.0)
    k = math.sqrt(MU / p)
    vp = (-k * math.sin(nu), k * (e + math.cos(nu)), 0.0)
    cO, sO, ci, si, cw, sw = math.cos(raan), math.sin(raan), math.cos(inc), math.sin(inc), math.cos(argp), math.sin(argp)
    R = [
        [cO * cw - sO * sw * ci, -cO * sw - sO * cw * ci, sO * si],
        [sO * cw + cO * sw * ci, -sO * sw + cO * cw * ci, -cO * si],
        [sw * si, cw * si, ci],
    ]
    pos = [sum(R[i][j] * rp[j] for j in range(3)) for i in range(3)]
    vel = [sum(R[i][j] * vp[j] for j in range(3)) for i in range(3)]
    return pos, vel


def draw_orbit(rng: random.Random, regime: str | None = None, emax: float = 0.7):
    regime = regime or rng.choice(["leo", "leo", "meo", "geo", "heo", "xgeo"])
    if regime == "leo":
        a = RE + rng.uniform(400, 1800)
        e = rng.uniform(0, 0.02)
    elif regime == "meo":
        a = RE + rng.uniform(8000, 25000)
        e = rng.uniform(0, 0.2)
    elif regime == "geo":
        a = 42164.0 + rng.uniform(-50, 50)
        e = rng.uniform(0, 0.01)
    elif regime == "xgeo":
        a = rng.uniform(43000, 49000)
        e = rng.uniform(0, 0.04)
    else:
        e = rng.uniform(0.3, emax)
        rp = RE + rng.uniform(500, 3000)
        a = rp / (1 - e)
    inc = math.radians(rng.choice([rng.uniform(0, 180), rng.uniform(0, 5), rng.uniform(95, 100), 63.4, rng.uniform(175, 180)]))
    raan = rng.uniform(0, 2 * math.pi)
    argp = rng.uniform(0, 2 * math.pi)
    nu = rng.uniform(0, 2 * math.pi)
    pos, vel = coe_to_rv(a, e, inc, raan, argp, nu)
    return {"a": a, "e": e, "inc": inc, "raan": raan, "argp": argp, "nu": nu, "pos": pos, "vel": vel, "regime": regime}


def eci_target(tid: int, pos, vel, name=None, **platform) -> dict:
    plat = {"type": "spacecraft"}
    plat.update(platform)
    return {"id": tid, "name": name or f"T{tid}", "platform": plat,
            "state": {"type": "eci", "position": [float(x) for x in pos], "velocity": [float(x) for x in vel]}}


# ---------------------------------------------------------------------------------------------
# sensors
# ---------------------------------------------------------------------------------------------
def sensor_block(kind: str, rng: random.Random | None = None, coarse: bool = False, **over) -> dict:
    if kind == "optical":
        cov = [[1e-6 if coarse else 3e-13, 0.0], [0.0, 1e-6 if coarse else 3e-13]]
        s = {"type": "optical", "covariance": cov, "slew_rate": 20.0, "azimuth_range": [0.0, 359.9999],
             "elevation_range": [1.0, 89.9999], "efficiency": 0.98, "aperture_diameter": 1.0}
    else:
        if coarse:
            cov = [[1e-6, 0, 0, 0], [0, 1e-6, 0, 0], [0, 0, 1.0, 0], [0, 0, 0, 1e-4]]
        else:
            cov = [[1.2e-11, 0, 0, 0], [0, 1.2e-11, 0, 0], [0, 0, 8.7e-10, 0], [0, 0, 0, 4e-12]]
        s = {"type": kind, "covariance": cov, "slew_rate": 180.0, "azimuth_range": [0.0, 359.9999],
             "elevation_range": [1.0, 89.9999], "efficiency": 0.95, "aperture_diameter": 50.0,
             "tx_power": 3.2e7, "tx_frequency": 6.5e8, "min_detectable_power": 4.7e-18}
    s.update(over)
    return s


def ground_sensor(sid: int, lat: float, lon: float, alt: float, sensor: dict, name=None) -> dict:
    return {"id": sid, "name": name or f"S{sid}", "platform": {"type": "ground_facility"},
            "state": {"type": "lla", "latitude": lat, "longitude": lon, "altitude": alt}, "sensor": sensor}


def space_sensor(sid: int, pos, vel, sensor: dict, name=None) -> dict:
    return {"id": sid, "name": name or f"S{sid}", "platform": {"type": "spacecraft"},
            "state": {"type": "eci", "position": [float(x) for x in pos], "velocity": [float(x) for x in vel]}, "sensor": sensor}


TIME_ZONES = ["UTC", "UTC", "EST5EDT,M3.2.0,M11.1.0", "IST-5:30", "NZST-12NZDT,M9.5.0,M4.1.0/3", "CET-1CEST,M3.5.0,M10.5.0/3", "HST10"]


def draw_tz(rng: random.Random) -> str:
    """Local time zone of the simulated machine (a POSIX TZ rule)."""
    return rng.choice(TIME_ZONES)


def draw_site(rng: random.Random):
    mode = rng.random()
    if mode < 0.1:
        lat = rng.choice([89.9, -89.9, 85.0, -85.0, 0.0])
    else:
        lat = rng.uniform(-80, 80)
    if rng.random() < 0.15:
        lon = rng.choice([180.0, -180.0, 179.999, -179.999, 0.0, 359.0 - 360.0])
    else:
        lon = rng.uniform(-180, 180)
    alt = rng.choice([0.0, rng.uniform(0, 4.5), rng.uniform(0.0, 0.5)])
    return lat, lon, alt


# ---------------------------------------------------------------------------------------------
# engines / estimation
# ---------------------------------------------------------------------------------------------
METRICS = ["FisherInformation", "ShannonInformation", "KLDivergence", "PositionCovarianceTrace", "VelocityCovarianceTrace",
           "PositionCovarianceDeterminant", "VelocityCovarianceDeterminant", "PositionMaxEigenValue", "VelocityMaxEigenValue",
           "PositionCovarianceReduction", "VelocityCovarianceReduction", "Range", "SlewDistanceMinimization", "SlewDistanceMaximization",
           "SlewTimeMinimization", "SlewTimeMaximization", "TimeSinceObservation", "LyapunovStability"]


def engine_block(eid: int, sensors: list[dict], targets: list[dict], decision="MunkresDecision", reward=None, decision_extra=None) -> dict:
    reward = reward or {"name": "SimpleSummationReward", "metrics": [{"name": "TimeSinceObservation"}]}
    d = {"name": decision}
    if decision_extra:
        d.update(decision_extra)
    return {"unique_id": eid, "reward": reward, "decision": d, "sensors": sensors, "targets": targets}


def estimation_block(rng: random.Random | None = None, dynamics="two_body", **over) -> dict:
    sf = {"name": "unscented_kalman_filter", "dynamics_model": dynamics}
    sf.update(over)
    return {"sequential_filter": sf}


def base_config(start: dt.datetime, step: int, nsteps: int, engines: list[dict], out_step=None, model="two_body",
                integrator="RK45", truth_only=False, seed=1, estimation=None, events=None, background=True,
                realtime_obs=True, tgt_realtime=True, sen_realtime=True, geopotential=None, perturbations=None,
                noise=None) -> dict:
    cfg = {
        "time": time_block(start, step, nsteps, out_step),
        "noise": noise or {"init_position_std_km": 1e-3, "init_velocity_std_km_p_sec": 1e-6,
                           "filter_noise_type": "continuous_white_noise", "filter_noise_magnitude": 3e-14, "random_seed": seed},
        "propagation": {"propagation_model": model, "integration_method": integrator, "station_keeping": False,
                        "target_realtime_propagation": tgt_realtime, "sensor_realtime_propagation": sen_realtime,
                        "truth_simulation_only": truth_only},
        "observation": {"background": background, "realtime_observation": realtime_obs},
        "geopotential": geopotential or {"model": "egm96.txt", "degree": 2, "order": 0},
        "perturbations": perturbations or {"third_bodies": [], "solar_radiation_pressure": False, "general_relativity": False},
        "estimation": estimation or estimation_block(dynamics=model),
        "engines": engines,
        "events": events or [],
    }
    return cfg


# ---------------------------------------------------------------------------------------------
# inverse-geometry placement (generation only; may use repo transforms)
# ---------------------------------------------------------------------------------------------
def _lla_to_ecef(lat_deg, lon_deg, alt):
    from .oracles import geom

    return geom.lla_to_ecef(math.radians(lat_deg), math.radians(lon_deg), alt)


def place_over_site(rng: random.Random, site: dict, when: dt.datetime, t_back: float, az_deg: float, el_deg: float, rng_km: float,
                    motion: str = "corotate"):
    """ECI state at scenario start of a target that, ``t_back`` seconds later (at ``when``), is seen
    from the ground ``site`` at the given azimuth / elevation / range (two-body back-propagation)."""
    import numpy as np

    from resonaate.physics.transforms.methods import ecef2eci

    from .oracles import geom, kepler

    lat, lon = math.radians(site["latitude"]), math.radians(site["longitude"])
    site_ecef = geom.lla_to_ecef(lat, lon, site["altitude"])
    az, el = math.radians(az_deg), math.radians(el_deg)
    sez = np.array([-math.cos(el) * math.cos(az), math.cos(el) * math.sin(az), math.sin(el)]) * rng_km
    tgt_ecef = site_ecef + geom.sez_basis(lat, lon).T @ sez
    r_eci = ecef2eci(np.concatenate([tgt_ecef, np.zeros(3)]), when)[:3]
    pole = ecef2eci(np.array([0.0, 0.0, 1.0, 0, 0, 0]), when)[:3]
    pole = pole / np.linalg.norm(pole)
    r = float(np.linalg.norm(r_eci))
    east = np.cross(pole, r_eci)
    if np.linalg.norm(east) < 1e-6:
        east = np.cross(np.array([1.0, 0, 0]), r_eci)
    east = east / np.linalg.norm(east)
    north = np.cross(r_eci / r, east)
    speed = math.sqrt(kepler.MU / r)
    if motion == "corotate":
        tilt = math.radians(rng.uniform(-3, 3))
    elif motion == "polar":
        tilt = math.radians(rng.choice([90, -90]) + rng.uniform(-10, 10))
    else:
        tilt = rng.uniform(0, 2 * math.pi)
    v_eci = speed * (math.cos(tilt) * east + math.sin(tilt) * north)
    st = np.concatenate([r_eci, v_eci])
    if t_back:
        st = kepler.propagate(st, -t_back)
    return st


def draw_sensor_block(rng: random.Random, kind: str, coarse: bool, narrow_fov: bool = False, masks: bool = True, slow_slew: bool = False) -> dict:
    over = {}
    if masks and rng.random() < 0.5:
        m = rng.random()
        if m < 0.35:
            lo = rng.uniform(200, 359)
            hi = rng.uniform(0, 160)  # wraps through north
        elif m < 0.7:
            lo = rng.uniform(0, 180)
            hi = rng.uniform(lo + 5, 359.9)
        else:
            lo, hi = 0.0, 359.9999
        over["azimuth_range"] = [lo, hi]
        over["elevation_range"] = [rng.choice([0.5, 1.0, 5.0, 10.0, 20.0]), rng.choice([89.9999, 85.0, 70.0, 60.0])]
    if narrow_fov:
        over["field_of_view"] = {"fov_shape": "conic", "cone_angle": rng.choice([0.02, 0.05, 0.1])}
    else:
        f = rng.random()
        if f < 0.35:
            over["field_of_view"] = {"fov_shape": "conic", "cone_angle": rng.choice([0.5, 1.0, 5.0, 15.0, 40.0])}
        elif f < 0.8:
            over["field_of_view"] = {"fov_shape": "rectangular", "azimuth_angle": rng.choice([0.5, 1.0, 5.0, 20.0, 60.0]),
                                     "elevation_angle": rng.choice([0.5, 1.0, 5.0, 20.0])}
    if slow_slew or rng.random() < 0.25:
        over["slew_rate"] = rng.choice([0.001, 0.01, 0.05, 0.2, 1.0])
    if rng.random() < 0.2:
        over["maximum_range"] = rng.choice([2000.0, 20000.0, 40000.0])
    if rng.random() < 0.1:
        over["minimum_range"] = rng.choice([500.0, 5000.0])
    if kind != "optical" and rng.random() < 0.25:
        over["tx_power"] = rng.choice([1e3, 1e5, 3e6])
        over["aperture_diameter"] = rng.choice([5.0, 20.0])
    if kind == "optical" and rng.random() < 0.3:
        over["detectable_vismag"] = rng.choice([10.0, 14.0, 18.0])
    return sensor_block(kind, coarse=coarse, **over)


def network_case(rng: random.Random, *, nsteps=None, step=None, kinds=("optical", "radar", "adv_radar"), n_sensors=None, n_targets=None,
                 coarse=None, narrow_fov=False, decision=None, reward=None, model=None, two_engines_p=0.2, space_sensor_p=0.15,
                 geo_p=0.6, start=None, out_mult=None, estimation=None, noise=None, truth_only=False, background=None,
                 placed_p=0.85, masks=True, integrator=None, events=None, slow_slew=False, edge_p=0.0, cluster_p=0.0, id_stride=1) -> dict:
    """A complete small scenario: 1-4 sensors, 1-5 targets placed by inverse geometry."""
    import numpy as np

    step = step or rng.choice([30, 60, 60, 120, 300, 300, 600])
    nsteps = nsteps or rng.randrange(2, 5)
    total = step * nsteps
    start = start or draw_start(rng, EOP_FIRST, EOP_LAST - dt.timedelta(seconds=total + 2 * 86400), whole_minute_p=0.1)
    n_sensors = n_sensors or rng.randrange(1, 5)
    n_targets = n_targets or rng.randrange(1, 6)
    coarse = rng.random() < 0.5 if coarse is None else coarse
    model = model or ("two_body" if rng.random() < 0.8 else "special_perturbations")
    dec = decision or rng.choice(["MunkresDecision", "MyopicNaiveGreedyDecision", "RandomDecision", "AllVisibleDecision"])
    if dec == "AllVisibleDecision":
        kinds = ("adv_radar",)
    sensors, sites = [], []
    for i in range(n_sensors):
        kind = rng.choice(list(kinds))
        blk = draw_sensor_block(rng, kind, coarse, narrow_fov=narrow_fov, masks=masks, slow_slew=slow_slew)
        if rng.random() < space_sensor_p:
            orb = draw_orbit(rng, rng.choice(["leo", "meo", "geo"]))
            blk["elevation_range"] = [-89.9, 89.9]
            sensors.append(space_sensor(60001 + i * id_stride, orb["pos"], orb["vel"], blk))
            sites.append(None)
        else:
            if sites and sites[0] is not None and rng.random() < 0.5:
                b = sites[0]
                lat = max(-89.0, min(89.0, b["latitude"] + rng.uniform(-0.05, 0.05)))
                lon = b["longitude"] + rng.uniform(-0.05, 0.05)
                lon = (lon + 180.0) % 360.0 - 180.0
                alt = b["altitude"]
            else:
                lat, lon, alt = draw_site(rng)
            sensors.append(ground_sensor(90001 + i * id_stride, lat, lon, alt, blk))
            sites.append({"latitude": lat, "longitude": lon, "altitude": alt})
    ground = [s for s in sites if s is not None]
    targets = []
    for j in range(n_targets):
        tid = 10001 + j
        if targets and rng.random() < cluster_p:
            # a close companion of the previous target (a few km off, same velocity): both sit in one field of view, so a sensor
            # tasked to one observes the other serendipitously while another sensor is tasked to it
            prev = targets[-1]["state"]
            off = np.array([rng.gauss(0, 1) for _ in range(3)])
            off = off / np.linalg.norm(off) * rng.choice([0.5, 2.0, 10.0, 40.0])
            targets.append(eci_target(tid, (np.array(prev["position"]) + off).tolist(), prev["velocity"]))
            continue
        if ground and rng.random() < placed_p:
            site = rng.choice(ground)
            k = rng.randrange(0, nsteps + 1)
            when = start + dt.timedelta(seconds=k * step)
            azm = rng.random()
            if azm < 0.25:
                az = rng.choice([0.0, 359.99, 0.01, 180.0, 359.6, 0.4]) + rng.uniform(-0.3, 0.3)
            else:
                az = rng.uniform(0, 360)
            az %= 360.0
            el = rng.choice([rng.uniform(2, 88), rng.uniform(60, 89.5), rng.uniform(1, 12)])
            if rng.random() < geo_p:
                rkm = rng.uniform(35500, 41000)
                motion = "corotate"
            else:
                rkm = rng.choice([rng.uniform(500, 3000), rng.uniform(8000, 25000)])
                motion = rng.choice(["corotate", "polar", "any"])
            if rng.random() < edge_p:
                # aim at a limit of one of the site's sensors: mask edges, range limits
                here = [s for s, st in zip(sensors, sites) if st is site]
                sb = rng.choice(here)["sensor"] if here else None
                if sb is not None:
                    which = rng.choice(["az_lo", "az_hi", "el_lo", "el_hi", "max_range", "min_range"])
                    eps = rng.choice([-1, 1]) * rng.choice([1e-4, 1e-3, 1e-2, 0.05])
                    if which == "az_lo":
                        az = (sb["azimuth_range"][0] + eps) % 360.0
                    elif which == "az_hi":
                        az = (sb["azimuth_range"][1] + eps) % 360.0
                    elif which == "el_lo":
                        el = max(0.2, sb["elevation_range"][0] + eps)
                    elif which == "el_hi":
                        el = min(89.9, sb["elevation_range"][1] + eps)
                    elif which == "max_range" and sb.get("maximum_range") and sb["maximum_range"] < 1e9:
                        rkm = sb["maximum_range"] + eps * 100
                    elif which == "min_range" and sb.get("minimum_range"):
                        rkm = max(300.0, sb["minimum_range"] + eps * 100)
            st = place_over_site(rng, site, when, k * step, az, el, rkm, motion)
            if np.linalg.norm(st[:3]) < RE + 150 or np.linalg.norm(st[:3]) > RE + 44000:
                orb = draw_orbit(rng, "meo")
                st = np.array(orb["pos"] + orb["vel"])
            targets.append(eci_target(tid, st[:3], st[3:]))
        else:
            orb = draw_orbit(rng, emax=0.5)
            targets.append(eci_target(tid, orb["pos"], orb["vel"]))
    if reward is None:
        rname = rng.choice(["SimpleSummationReward", "CostConstrainedReward", "CombinedReward"])
        nm = {"SimpleSummationReward": rng.randrange(1, 4), "CostConstrainedReward": 3, "CombinedReward": 4}[rname]
        if rname == "CostConstrainedReward":
            mets = [rng.choice(["FisherInformation", "ShannonInformation", "KLDivergence"]), "LyapunovStability",
                    rng.choice(["SlewDistanceMinimization", "SlewTimeMinimization", "SlewDistanceMaximization", "SlewTimeMaximization"])]
            rng.shuffle(mets)
        elif rname == "CombinedReward":
            mets = [rng.choice(["FisherInformation", "ShannonInformation", "KLDivergence"]), "LyapunovStability",
                    rng.choice(["SlewDistanceMinimization", "SlewTimeMinimization", "SlewDistanceMaximization", "SlewTimeMaximization"]), "TimeSinceObservation"]
            rng.shuffle(mets)
        else:
            mets = rng.sample(METRICS, nm)
        reward = {"name": rname, "metrics": [{"name": m} for m in mets]}
    dextra = {"seed": rng.randrange(1, 2**31)} if dec == "RandomDecision" else None
    engines = []
    eid_a, eid_b = rng.choice([(1, 2), (1, 2), (0, 1), (2, 0), (7, 3)])
    if n_sensors >= 2 and rng.random() < two_engines_p:
        cut = rng.randrange(1, n_sensors)
        t_a = targets if rng.random() < 0.5 or n_targets < 2 else targets[: max(1, n_targets // 2)]
        t_b = targets if t_a is targets and rng.random() < 0.5 else targets[-max(1, n_targets // 2):]
        engines.append(engine_block(eid_a, sensors[:cut], t_a, dec, reward, dextra))
        kinds_b = {s["sensor"]["type"] for s in sensors[cut:]}
        dec_b = dec if dec != "AllVisibleDecision" or kinds_b == {"adv_radar"} else "MunkresDecision"
        engines.append(engine_block(eid_b, sensors[cut:], t_b, dec_b, reward, {"seed": rng.randrange(1, 2**31)} if dec_b == "RandomDecision" else None))
    else:
        engines.append(engine_block(eid_a, sensors, targets, dec, reward, dextra))
    est = estimation or estimation_block(dynamics=model if rng.random() < 0.8 else "two_body")
    if noise is None:
        big = coarse and rng.random() < 0.5
        noise = {"init_position_std_km": rng.choice([1e-3, 1e-2, 0.1]) if not big else rng.choice([1.0, 5.0, 20.0]),
                 "init_velocity_std_km_p_sec": rng.choice([1e-6, 1e-5, 1e-4]) if not big else rng.choice([1e-3, 5e-3]),
                 "filter_noise_type": rng.choice(["continuous_white_noise", "discrete_white_noise", "simple_noise"]),
                 "filter_noise_magnitude": rng.choice([3e-14, 1e-12, 1e-10]), "random_seed": rng.randrange(1, 2**31)}
    cfg = base_config(start, step, nsteps, engines, out_step=step * (out_mult or rng.choice([1, 1, 1, 2])), model=model,
                      integrator=integrator or rng.choice(["RK45", "RK45", "DOP853"]), truth_only=truth_only, estimation=est, events=events,
                      background=rng.random() < 0.5 if background is None else background, noise=noise,
                      geopotential={"model": rng.choice(["egm96.txt", "egm2008.txt", "GGM03S.txt", "jgm3.txt"]), "degree": rng.choice([0, 2, 4]), "order": rng.choice([0, 2, 4])},
                      perturbations={"third_bodies": rng.sample(["sun", "moon"], rng.randrange(0, 3)), "solar_radiation_pressure": rng.random() < 0.3,
                                     "general_relativity": rng.random() < 0.2})
    return cfg
