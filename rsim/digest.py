"""``python -m rsim.digest PID SEED N SLOTS`` -> JSON list of the per-run history digests."""

from __future__ import annotations

import json
import random
import sys


def main():
    pid, seed, n, slots = sys.argv[1], int(sys.argv[2]), int(sys.argv[3]), int(sys.argv[4])
    from .__main__ import load_check
    from .core import ForkPool, case_seed

    check = load_check(pid)
    check.setup("quick")
    pool = ForkPool(slots)
    out = {}
    nxt = 0
    while nxt < n or len(pool):
        while nxt < n and len(pool) < slots:
            case = check.gen(random.Random(case_seed(seed, check.pid, nxt)), "quick", nxt)
            case["_index"], case["_seed"] = nxt, seed
            pool.submit(nxt, check.run, case, check.per_run_timeout_s)
            nxt += 1
        for tag, payload, _ in pool.poll(0.05):
            out[tag] = payload["result"]["digest"] if payload.get("ok") else f"ERR:{payload.get('error')}"
    print(json.dumps([out[i] for i in range(n)]))


if __name__ == "__main__":
    main()
