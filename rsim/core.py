"""Driver shared by every check: seeded case generation, fork-per-run pool, verdict collection,
known-finding matching, shrinking, replay files and evidence files.

One integer decides everything: ``VERIF_SEED`` -> per-run seeds ``f"{seed}/{check}/{index}"``.
Each run executes in a freshly forked child of a parent that has imported resonaate (with the
simray seam) exactly once; the child returns one JSON document over a pipe.
"""

from __future__ import annotations

import faulthandler
import hashlib
import json
import os
import random
import select
import signal
import sys
import time
import traceback
from typing import Any, Iterator

VERIF = os.path.dirname(os.path.dirname(os.path.abspath(__file__)))
EVIDENCE_DIR = os.path.join(VERIF, "evidence")
REPLAY_DIR = os.path.join(VERIF, "replays")
KNOWN_FILE = os.path.join(VERIF, "known_findings.json")


class HarnessError(Exception):
    """The harness (not resonaate) failed: exit status 2, never a VIOLATION."""


def scratch_dir() -> str:
    base = "/dev/shm" if os.path.isdir("/dev/shm") and os.access("/dev/shm", os.W_OK) else os.environ.get("TMPDIR", "/tmp")
    d = os.path.join(base, f"rsim-{os.getpid()}")
    os.makedirs(d, exist_ok=True)
    return d


def jdigest(obj: Any) -> str:
    return hashlib.sha256(json.dumps(obj, sort_keys=True, default=_jdefault).encode()).hexdigest()[:16]


def _jdefault(o):
    import numpy as np

    if isinstance(o, np.ndarray):
        return [float(x).hex() if isinstance(x, float) else x for x in o.ravel().tolist()]
    if isinstance(o, (np.floating,)):
        return float(o).hex()
    if isinstance(o, (np.integer,)):
        return int(o)
    if isinstance(o, (np.bool_,)):
        return bool(o)
    if isinstance(o, (set, frozenset)):
        return sorted(o)
    if isinstance(o, bytes):
        return o.hex()
    return repr(o)


# ---------------------------------------------------------------------------------------------
# the check interface
# ---------------------------------------------------------------------------------------------
class Check:
    pid = "C00"
    level = "exploration"
    quick_budget_s = 60.0
    thorough_budget_s = 600.0
    per_run_timeout_s = 120.0
    rule = ""
    assumptions: list[str] = []
    real_components: list[str] = []
    stub_components: list[str] = []
    min_runs = 8  # a batch always performs at least this many runs regardless of budget

    def setup(self, tier: str) -> None:
        """Called once in the parent after resonaate is imported (install probes here)."""

    def gen(self, rng: random.Random, tier: str, index: int) -> dict:
        raise NotImplementedError

    def run(self, case: dict) -> dict:
        """Execute one case (in a forked child) and judge it.

        Returns a dict with keys: violations (list of {clause, detail, key?}), nontrivial (bool),
        key (str: distinctness digest), counters (dict[str,int]), sim_seconds (float),
        faults (dict[str,int]), digest (str), skipped (str|None), interleaving (str|None),
        tolerances (dict[str, [measured, limit]]), indeterminate (int)
        """
        raise NotImplementedError

    def shrink_candidates(self, case: dict, violation: dict) -> Iterator[dict]:
        return iter(())

    def sample_view(self, case: dict) -> Any:
        """Compact, human-readable view of a case for the evidence file."""
        return case


def _safe_view(check, case):
    """A check's compact view of a case for the evidence file; a view that cannot be built must not cost the verdict."""
    try:
        return check.sample_view(case)
    except Exception as exc:  # noqa: BLE001
        return {"view_unavailable": f"{type(exc).__name__}: {exc}", "config_time": case.get("config", {}).get("time")}


def result_template() -> dict:
    return {"violations": [], "nontrivial": False, "key": "", "counters": {}, "sim_seconds": 0.0,
            "faults": {}, "digest": "", "skipped": None, "interleaving": None, "tolerances": {},
            "indeterminate": 0}


# ---------------------------------------------------------------------------------------------
# fork-per-run pool
# ---------------------------------------------------------------------------------------------
def _child_main(fn, arg, wfd):
    status = 0
    try:
        faulthandler.enable()
        signal.signal(signal.SIGINT, signal.SIG_DFL)
        try:
            payload = {"ok": True, "result": fn(arg)}
        except BaseException as exc:  # noqa: BLE001
            payload = {"ok": False, "error": f"{type(exc).__name__}: {exc}", "trace": traceback.format_exc()}
        data = json.dumps(payload, default=_jdefault).encode()
        with os.fdopen(wfd, "wb") as f:
            f.write(data)
    except BaseException:  # noqa: BLE001
        status = 3
    finally:
        _drop_empty_scratch()
        os._exit(status)


def _drop_empty_scratch():
    """Remove this process's scratch directory if it is empty (runs clean their own files up; the directory itself would pile up by the thousand)."""
    for base in ("/dev/shm", os.environ.get("TMPDIR", "/tmp")):
        try:
            os.rmdir(os.path.join(base, f"rsim-{os.getpid()}"))
        except OSError:
            pass


def _die_with_parent():
    """In a forked child: be killed when the parent goes (a run killed for exceeding its time limit must not leave its own forks running)."""
    try:
        import ctypes

        ctypes.CDLL("libc.so.6", use_errno=True).prctl(1, int(signal.SIGKILL))      # PR_SET_PDEATHSIG
    except Exception:  # noqa: BLE001,S110
        pass


def _fork_with_retry(attempts: int = 8):
    """os.fork(), retried with back-off when the machine is momentarily out of processes or memory (EAGAIN / ENOMEM under heavy load)."""
    delay = 0.2
    for i in range(attempts):
        try:
            return os.fork()
        except OSError as exc:
            if i == attempts - 1 or exc.errno not in (11, 12):
                raise
            time.sleep(delay)
            delay = min(delay * 2, 5.0)
    raise RuntimeError("unreachable")


class ForkPool:
    """Runs ``fn(arg)`` in forked children, at most ``slots`` at a time; yields (tag, payload)."""

    def __init__(self, slots: int):
        self.slots = slots
        self.active: dict[int, dict] = {}  # rfd -> info

    def submit(self, tag, fn, arg, timeout):
        rfd, wfd = os.pipe()
        sys.stdout.flush()
        sys.stderr.flush()
        pid = _fork_with_retry()
        if pid == 0:
            _die_with_parent()
            os.close(rfd)
            for info in self.active.values():
                try:
                    os.close(info["rfd"])
                except OSError:
                    pass
            _child_main(fn, arg, wfd)
        os.close(wfd)
        self.active[rfd] = {"rfd": rfd, "pid": pid, "tag": tag, "buf": bytearray(), "t0": time.monotonic(), "timeout": timeout}

    def __len__(self):
        return len(self.active)

    def poll(self, wait_s=0.05):
        """Return list of finished (tag, payload, wall)."""
        done = []
        if not self.active:
            return done
        rl, _, _ = select.select(list(self.active.keys()), [], [], wait_s)
        for rfd in rl:
            info = self.active[rfd]
            chunk = os.read(rfd, 1 << 20)
            if chunk:
                info["buf"] += chunk
                continue
            os.close(rfd)
            del self.active[rfd]
            _, st = os.waitpid(info["pid"], 0)
            wall = time.monotonic() - info["t0"]
            if info["buf"]:
                try:
                    payload = json.loads(bytes(info["buf"]))
                except Exception as exc:  # noqa: BLE001
                    payload = {"ok": False, "error": f"undecodable child output: {exc}", "trace": ""}
            else:
                payload = {"ok": False, "error": f"child died without output (wait status {st})", "trace": "", "died": True, "status": st}
            done.append((info["tag"], payload, wall))
        now = time.monotonic()
        for rfd, info in list(self.active.items()):
            if now - info["t0"] > info["timeout"]:
                try:
                    os.kill(info["pid"], signal.SIGKILL)
                except OSError:
                    pass
                os.close(rfd)
                del self.active[rfd]
                os.waitpid(info["pid"], 0)
                done.append((info["tag"], {"ok": False, "error": "timeout", "trace": "", "timeout": True}, now - info["t0"]))
        return done

    def drain(self):
        out = []
        while self.active:
            out.extend(self.poll(0.1))
        return out

    def kill_all(self):
        for rfd, info in list(self.active.items()):
            try:
                os.kill(info["pid"], signal.SIGKILL)
            except OSError:
                pass
            os.close(rfd)
            os.waitpid(info["pid"], 0)
        self.active.clear()


def run_one_forked(fn, arg, timeout=300.0) -> dict:
    pool = ForkPool(1)
    pool.submit(0, fn, arg, timeout)
    return pool.drain()[0][1]


def fork_call(fn, arg, timeout=600.0):
    """``fn(arg)`` in a fresh fork of this process, result returned by pickle (numpy arrays, tuple keys...).  Each scenario run of a
    multi-run case gets its own fork, the way real runs get their own processes: whatever a run leaves behind at module or class level
    (caches, counters) cannot reach the next one and make it agree."""
    import pickle

    rfd, wfd = os.pipe()
    sys.stdout.flush()
    sys.stderr.flush()
    pid = _fork_with_retry()
    if pid == 0:
        _die_with_parent()
        os.close(rfd)
        status = 0
        try:
            signal.signal(signal.SIGINT, signal.SIG_DFL)
            try:
                payload = ("ok", fn(arg))
            except BaseException as exc:  # noqa: BLE001
                payload = ("err", f"{type(exc).__name__}: {exc}", traceback.format_exc())
            with os.fdopen(wfd, "wb") as f:
                pickle.dump(payload, f, protocol=4)
        except BaseException:  # noqa: BLE001
            status = 3
        finally:
            _drop_empty_scratch()
            os._exit(status)
    os.close(wfd)
    buf = bytearray()
    t0 = time.monotonic()
    try:
        while True:
            if time.monotonic() - t0 > timeout:
                os.kill(pid, signal.SIGKILL)
                os.waitpid(pid, 0)
                raise HarnessError(f"fork_call: {getattr(fn, '__name__', fn)} did not finish within {timeout}s")
            rl, _, _ = select.select([rfd], [], [], 0.2)
            if rl:
                chunk = os.read(rfd, 1 << 20)
                if not chunk:
                    break
                buf += chunk
    finally:
        os.close(rfd)
    _, st = os.waitpid(pid, 0)
    if not buf:
        raise HarnessError(f"fork_call: child died without output (wait status {st})")
    payload = pickle.loads(bytes(buf))
    if payload[0] != "ok":
        raise HarnessError(f"fork_call: {payload[1]}\n{payload[2]}")
    return payload[1]


# ---------------------------------------------------------------------------------------------
# known findings
# ---------------------------------------------------------------------------------------------
def load_known() -> list[dict]:
    if not os.path.exists(KNOWN_FILE):
        return []
    with open(KNOWN_FILE) as f:
        return json.load(f).get("findings", [])


def run_known_regressions(check: "Check", known: list[dict]) -> dict:
    """Re-run the stored failing case of every listed (status=known) finding of this property.

    The finding is reported as KNOWN-FINDING when its case still fails the same way; if it no
    longer does (the defect was repaired) that is only noted - a fixed tree must not fail.
    """
    hits = {}
    for f in known:
        if f.get("status") != "known" or f.get("property") != check.pid or not f.get("replay"):
            continue
        path = os.path.join(VERIF, f["replay"])
        try:
            with open(path) as fh:
                doc = json.load(fh)
        except OSError as exc:
            raise HarnessError(f"known finding {f['id']}: cannot read {path}: {exc}") from exc
        payload = run_one_forked(check.run, doc["case"], check.per_run_timeout_s * 2)
        if not payload.get("ok"):
            raise HarnessError(f"known finding {f['id']}: regression case failed in the harness: {payload.get('error')}\n{payload.get('trace', '')}")
        mine = [v for v in payload["result"].get("violations", []) if match_known(check.pid, v, [f])]
        other = [v for v in payload["result"].get("violations", []) if not match_known(check.pid, v, known)]
        if other:
            raise HarnessError(f"known finding {f['id']}: its regression case now shows a different violation: {other[0]}")
        if mine:
            hits[f["id"]] = {"finding": f, "example": mine[0]}
        else:
            print(f"[rsim] note: known finding {f['id']} no longer reproduces on this tree", flush=True)
    return hits


def match_known(pid: str, violation: dict, known: list[dict]) -> dict | None:
    """A violation is known iff a listed (not fixed) finding has the same property, clause and key.

    ``key`` is the specific failing input / call site the check attaches to a violation.
    A finding may list several keys or a key prefix (``key_prefix``); a different key of the
    same clause is still reported.
    """
    for f in known:
        if f.get("status") != "known" or f.get("property") != pid:
            continue
        if f.get("clause") != violation.get("clause"):
            continue
        vkey = violation.get("key", "")
        if "keys" in f and vkey in f["keys"]:
            return f
        if "key_prefix" in f and vkey.startswith(f["key_prefix"]):
            return f
    return None


# ---------------------------------------------------------------------------------------------
# the batch driver
# ---------------------------------------------------------------------------------------------
def case_seed(seed: int, pid: str, index: int) -> str:
    return f"{seed}/{pid}/{index}"


def run_check(check: Check, tier: str, seed: int, budget_s: float | None = None, slots: int | None = None,
              max_runs: int | None = None, write_evidence: bool = True, verbose: bool = True) -> int:
    t_start = time.monotonic()
    slots = slots or int(os.environ.get("VERIF_SLOTS", "0")) or min(16, os.cpu_count() or 4)
    if budget_s is None:
        env_b = os.environ.get("VERIF_BUDGET_S")
        budget_s = float(env_b) if env_b else (check.quick_budget_s if tier == "quick" else check.thorough_budget_s)
    if max_runs is None and os.environ.get("VERIF_MAX_RUNS"):
        max_runs = int(os.environ["VERIF_MAX_RUNS"])
    print(f"[rsim] check={check.pid} tier={tier} VERIF_SEED={seed} budget={budget_s:.0f}s slots={slots}", flush=True)
    check.setup(tier)
    known = load_known()
    regress_hits = run_known_regressions(check, known)
    pool = ForkPool(slots)
    results: dict[int, dict] = {}
    cases: dict[int, dict] = {}
    walls: list[float] = []
    harness_errors: list[tuple[int, str, str]] = []
    timeouts: list[int] = []
    next_index = 0
    stop_submitting = False
    first_violation_index = None
    deadline = t_start + budget_s

    def submit_next():
        nonlocal next_index
        idx = next_index
        next_index += 1
        rng = random.Random(case_seed(seed, check.pid, idx))
        case = check.gen(rng, tier, idx)
        case["_index"] = idx
        case["_seed"] = seed
        cases[idx] = case
        pool.submit(idx, check.run, case, check.per_run_timeout_s)

    while True:
        now = time.monotonic()
        enough = next_index >= check.min_runs
        out_of_time = now > deadline and enough
        capped = max_runs is not None and next_index >= max_runs
        if out_of_time or capped:
            stop_submitting = True
        while not stop_submitting and len(pool) < slots:
            submit_next()
            if max_runs is not None and next_index >= max_runs:
                stop_submitting = True
        if stop_submitting and not len(pool):
            break
        for tag, payload, wall in pool.poll(0.05):
            walls.append(wall)
            if payload.get("ok"):
                results[tag] = payload["result"]
                if payload["result"].get("violations"):
                    unknown = [v for v in payload["result"]["violations"] if not match_known(check.pid, v, known)]
                    if unknown and (first_violation_index is None or tag < first_violation_index):
                        first_violation_index = tag
                        if os.environ.get("RSIM_KEEP_GOING"):
                            continue
                        # stop generating beyond what is already in flight: the lowest failing
                        # index among completed+in-flight runs is then deterministic
                        stop_submitting = True
            elif payload.get("timeout"):
                timeouts.append(tag)
            else:
                harness_errors.append((tag, payload.get("error", "?"), payload.get("trace", "")))
    wall_total = time.monotonic() - t_start

    # timeouts: re-run alone once
    confirmed_timeouts = []
    if timeouts:
        # re-run (at most the 8 lowest-index) timed-out cases once more, in parallel, with twice the limit
        retry_pool = ForkPool(slots)
        for idx in sorted(timeouts)[:8]:
            retry_pool.submit(idx, check.run, cases[idx], check.per_run_timeout_s * 2)
        for idx, payload, _wall in retry_pool.drain():
            if payload.get("ok"):
                results[idx] = payload["result"]
            elif payload.get("timeout"):
                confirmed_timeouts.append(idx)
            else:
                harness_errors.append((idx, payload.get("error", "?"), payload.get("trace", "")))
        confirmed_timeouts.sort()

    if harness_errors:
        idx, err, tr = sorted(harness_errors)[0]
        print(f"[rsim] HARNESS ERROR in run {idx}: {err}\n{tr}", flush=True)
        os.makedirs(REPLAY_DIR, exist_ok=True)
        path = os.path.join(REPLAY_DIR, f"{check.pid}-harness-{seed}-{idx}.json")
        with open(path, "w") as f:
            json.dump({"property": check.pid, "harness_error": err, "case": cases[idx]}, f, indent=1, default=_jdefault)
        print(f"[rsim] case written to {path}; {len(harness_errors)} harness error(s) in total", flush=True)
        return 2

    # ---- aggregate
    agg = aggregate(check, results)
    known_hits: dict[str, dict] = {}
    violations: list[tuple[int, dict]] = []
    for idx in sorted(results):
        for v in results[idx].get("violations", []):
            kf = match_known(check.pid, v, known)
            if kf:
                known_hits.setdefault(kf["id"], {"finding": kf, "count": 0, "example": v})["count"] += 1
            else:
                violations.append((idx, v))
    for idx in confirmed_timeouts:
        violations.append((idx, {"clause": "run-did-not-finish", "detail": f"run exceeded {check.per_run_timeout_s * 2:.0f}s twice", "key": "timeout"}))

    exit_code = 0
    replay_path = None
    if violations:
        by_clause: dict[str, int] = {}
        for _i, _v in violations:
            by_clause[f"{_v['clause']}/{_v.get('key', '')}"] = by_clause.get(f"{_v['clause']}/{_v.get('key', '')}", 0) + 1
        print(f"[rsim] violations by clause/key: {by_clause}", flush=True)
        if os.environ.get("RSIM_KEEP_GOING"):
            seen = set()
            for _i, _v in violations:
                ck = f"{_v['clause']}/{_v.get('key', '')}"
                if ck not in seen:
                    seen.add(ck)
                    print(f"[rsim]   e.g. run {_i}: {ck}: {_v.get('detail', '')[:600]}", flush=True)
        idx, v = violations[0]
        case = cases[idx]
        print(f"[rsim] violation in run {idx}: clause={v['clause']} {v.get('detail', '')[:400]}", flush=True)
        shrunk, v2, shrink_log = shrink(check, case, v)
        replay_path = write_replay(check, seed, idx, shrunk, v2, shrink_log)
        confirmed = confirm_replay(replay_path)
        print(f"[rsim] replay file {replay_path} (fresh-process reproduction: {confirmed})", flush=True)
        if not confirmed:
            print("[rsim] HARNESS ERROR: violation did not reproduce from its replay file; no verdict", flush=True)
            return 2
        exit_code = 1

    for fid, hit in regress_hits.items():
        known_hits.setdefault(fid, {"finding": hit["finding"], "count": 0, "example": hit["example"]})
        known_hits[fid]["regression_case"] = True
    for hit in known_hits.values():
        f = hit["finding"]
        how = f"seen {hit['count']}x in this run's generated cases" + ("; fixed regression case reproduces" if hit.get("regression_case") else "")
        print(f"KNOWN-FINDING: property={check.pid} {f['id']}: {f['summary']} ({how})", flush=True)

    if write_evidence:
        write_evidence_file(check, tier, seed, agg, results, cases, wall_total, walls, len(violations), known_hits, slots)
    n = len(results)
    print(f"[rsim] {check.pid}: runs={n} nontrivial_distinct={agg['distinct_nontrivial']} skipped={agg['skipped']} "
          f"violations={len(violations)} known={sum(h['count'] for h in known_hits.values())} wall={wall_total:.1f}s "
          f"({n / max(wall_total, 1e-9) * 3600:.0f} runs/h)", flush=True)
    if exit_code == 1:
        print(f"VIOLATION property={check.pid} replay={replay_path}", flush=True)
    return exit_code


def aggregate(check: Check, results: dict[int, dict]) -> dict:
    counters: dict[str, int] = {}
    faults: dict[str, int] = {}
    tolerances: dict[str, list[float]] = {}
    keys = set()
    inter = set()
    skipped: dict[str, int] = {}
    sim_seconds = 0.0
    indeterminate = 0
    digests = []
    for idx in sorted(results):
        r = results[idx]
        if r.get("skipped"):
            skipped[r["skipped"]] = skipped.get(r["skipped"], 0) + 1
        for k, v in r.get("counters", {}).items():
            counters[k] = counters.get(k, 0) + int(v)
        for k, v in r.get("faults", {}).items():
            faults[k] = faults.get(k, 0) + int(v)
        for k, (m, lim) in r.get("tolerances", {}).items():
            cur = tolerances.get(k)
            tolerances[k] = [max(m, cur[0]) if cur else m, lim]
        if r.get("nontrivial") and not r.get("skipped"):
            keys.add(r.get("key"))
        for i in (r.get("interleavings") or ([r["interleaving"]] if r.get("interleaving") else [])):
            inter.add(i)
        sim_seconds += r.get("sim_seconds", 0.0)
        indeterminate += r.get("indeterminate", 0)
        digests.append((idx, r.get("digest", "")))
    return {"counters": counters, "faults": faults, "tolerances": tolerances, "distinct_nontrivial": len(keys),
            "interleavings": len(inter), "skipped": skipped, "sim_seconds": sim_seconds, "indeterminate": indeterminate,
            "batch_digest": jdigest(digests)}


def write_evidence_file(check, tier, seed, agg, results, cases, wall, walls, n_viol, known_hits, slots):
    os.makedirs(EVIDENCE_DIR, exist_ok=True)
    samples = []
    for idx in sorted(results):
        r = results[idx]
        if r.get("nontrivial") and not r.get("skipped"):
            samples.append({"run": idx, "case": _safe_view(check, cases[idx]), "counters": r.get("counters", {}),
                            "interleaving": r.get("interleaving")})
        if len(samples) >= 3:
            break
    if not samples and results:
        idx = sorted(results)[0]
        samples.append({"run": idx, "case": _safe_view(check, cases[idx])})
    n = len(results)
    ev = {
        "property_id": check.pid,
        "tier": tier,
        "seed": int(seed),
        "level": check.level,
        "coverage": {
            "evaluations": n,
            "distinct_nontrivial": agg["distinct_nontrivial"],
            "rule": check.rule,
            "samples": samples,
            "runs_per_hour": round(n / max(wall, 1e-9) * 3600),
            "seeds_per_hour": round(3600 / max(wall, 1e-9), 2),
            "simulated_seconds": agg["sim_seconds"],
            "faults_injected": agg["faults"],
            "interleavings_distinct": agg["interleavings"],
            "interleaving_measure": "distinct tuples of per-batch completion orders (simray wait decisions) over all runs",
            "reach": agg["counters"],
            "indeterminate": agg["indeterminate"],
            "tolerances": agg["tolerances"],
            "skipped": agg["skipped"],
            "known_findings_seen": {k: v["count"] for k, v in known_hits.items()},
            "real_components": check.real_components,
            "stub_components": check.stub_components,
            "worker_slots": slots,
            "median_run_wall_s": sorted(walls)[len(walls) // 2] if walls else 0.0,
            "batch_digest": agg["batch_digest"],
            "exhaustive": False,
        },
        "assumptions": check.assumptions,
        "wall_s": round(wall, 2),
        "violations": n_viol,
    }
    path = os.path.join(EVIDENCE_DIR, f"{check.pid}.json")
    tmp = path + ".tmp"
    with open(tmp, "w") as f:
        json.dump(ev, f, indent=1, default=_jdefault)
    os.replace(tmp, path)


# ---------------------------------------------------------------------------------------------
# shrinking and replay
# ---------------------------------------------------------------------------------------------
def same_violation(result: dict, violation: dict) -> dict | None:
    for v in result.get("violations", []):
        if v.get("clause") == violation.get("clause"):
            return v
    return None


def shrink(check: Check, case: dict, violation: dict, max_steps: int = 400, max_wall_s: float = 240.0):
    t0 = time.monotonic()
    log = []
    cur, curv = case, violation
    steps = 0
    improved = True
    while improved and steps < max_steps and time.monotonic() - t0 < max_wall_s:
        improved = False
        for cand in check.shrink_candidates(cur, curv):
            steps += 1
            if steps >= max_steps or time.monotonic() - t0 > max_wall_s:
                break
            cand = dict(cand)
            cand["_index"] = cur.get("_index")
            cand["_seed"] = cur.get("_seed")
            payload = run_one_forked(check.run, cand, check.per_run_timeout_s)
            if not payload.get("ok"):
                continue
            v = same_violation(payload["result"], curv)
            if v is not None:
                log.append(cand.get("_shrunk_by", "?"))
                cur, curv = cand, v
                improved = True
                break
    return cur, curv, log


def write_replay(check, seed, idx, case, violation, shrink_log) -> str:
    os.makedirs(REPLAY_DIR, exist_ok=True)
    doc = {"property": check.pid, "clause": violation.get("clause"), "seed": seed, "run_index": idx,
           "expect": violation, "case": case, "shrink_steps": shrink_log,
           "versions": {"python": sys.version.split()[0]}}
    text = json.dumps(doc, indent=1, default=_jdefault)
    # the name carries a digest of the content: two invocations running side by side (e.g. against two trees) never overwrite each other's file
    path = os.path.join(REPLAY_DIR, f"{check.pid}-{seed}-{idx}-{hashlib.sha256(text.encode()).hexdigest()[:8]}.json")
    tmp = f"{path}.{os.getpid()}.tmp"
    with open(tmp, "w") as f:
        f.write(text)
    os.replace(tmp, path)
    return path


def confirm_replay(path: str) -> bool:
    import subprocess

    env = dict(os.environ)
    env["PYTHONHASHSEED"] = "0"
    p = subprocess.run([sys.executable, "-m", "rsim", "replay", path], cwd=VERIF, env=env, capture_output=True, text=True, timeout=900)
    return p.returncode == 1 and "VIOLATION" in p.stdout


def replay(check: Check, path: str) -> int:
    with open(path) as f:
        doc = json.load(f)
    check.setup("quick")
    # one run, possibly on a busy machine: a generous limit (a replay that is merely slow must not turn a violation into "no verdict")
    payload = run_one_forked(check.run, doc["case"], max(check.per_run_timeout_s * 6, 300.0))
    if not payload.get("ok"):
        print(f"[rsim] replay harness error: {payload.get('error')}\n{payload.get('trace', '')}")
        return 2
    res = payload["result"]
    v = same_violation(res, doc["expect"]) if doc.get("expect") else (res["violations"][0] if res["violations"] else None)
    if v is None and res.get("violations"):
        v = res["violations"][0]
    if v is None:
        print(f"[rsim] replay {path}: no violation (digest {res.get('digest')})")
        return 0
    print(f"[rsim] replay {path}: clause={v['clause']} {v.get('detail', '')}")
    print(f"VIOLATION property={check.pid} replay={path}")
    return 1
