"""Determinism self-test: the same VERIF_SEED must give the same per-run history digests in
fresh interpreters, under different PYTHONHASHSEED values and with different worker counts."""

from __future__ import annotations

import json
import os
import subprocess
import sys

from .core import VERIF

def discover():
    import glob

    return sorted(os.path.basename(f)[:-3] for f in glob.glob(os.path.join(VERIF, "rsim", "checks", "C[0-9][0-9].py")))


def digests(pid: str, seed: int, n: int, slots: int, hashseed: str) -> list:
    env = dict(os.environ)
    env["PYTHONHASHSEED"] = hashseed
    p = subprocess.run([sys.executable, "-m", "rsim.digest", pid, str(seed), str(n), str(slots)], cwd=VERIF, env=env,
                       capture_output=True, text=True, timeout=1800)
    if p.returncode != 0:
        raise RuntimeError(f"digest run failed for {pid}: {p.stdout[-2000:]}\n{p.stderr[-2000:]}")
    return json.loads(p.stdout.strip().splitlines()[-1])


def main(quick: bool = False, pids=None) -> int:
    import importlib.util

    pids = pids or discover()
    n = 6 if quick else int(os.environ.get("RSIM_SELFTEST_N", "200"))
    seeds = [1] if quick else [1, 2, 3]
    bad = 0
    for pid in pids:
        for seed in seeds:
            a = digests(pid, seed, n, 16, "0")
            b = digests(pid, seed, n, 4 if not quick else 3, "random")
            if a != b:
                bad += 1
                diff = [i for i, (x, y) in enumerate(zip(a, b)) if x != y]
                print(f"[selftest] NONDETERMINISM {pid} seed={seed}: runs {diff[:10]} differ")
            else:
                print(f"[selftest] {pid} seed={seed}: {len(a)} run digests identical across interpreters/hash seeds/worker counts")
    if bad:
        print("[selftest] FAILED")
        return 1
    print("[selftest] ok")
    return 0
