"""Build and drive one real resonaate Scenario under the simulator (called inside a forked child)."""

from __future__ import annotations

import datetime as dt
import os
import shutil
import sqlite3

from . import boot, simray
from .core import scratch_dir

EPOCH0 = dt.datetime(1900, 1, 1)


def to_us(t: dt.datetime) -> int:
    """Exact integer microseconds since 1900-01-01 (naive UTC calendar arithmetic)."""
    d = t - EPOCH0
    return (d.days * 86400 + d.seconds) * 1_000_000 + d.microseconds


def from_us(us: int) -> dt.datetime:
    return EPOCH0 + dt.timedelta(microseconds=us)


def parse_ts(s: str) -> dt.datetime:
    s = s.rstrip("Z")
    return dt.datetime.fromisoformat(s)


def fmt_ts(t: dt.datetime) -> str:
    return t.isoformat(timespec="microseconds") + "Z"


def install_synthetic_eop(first: dt.date, last: dt.date):
    """Supply zero EOP rows (TAI-UTC = 32 s) for dates outside the bundled table."""
    from resonaate.physics.transforms.eops import EarthOrientationParameter, getEarthOrientationParameters, setEarthOrientationParameters, MissingEOP

    d = first
    while d <= last:
        try:
            getEarthOrientationParameters(d)
        except MissingEOP:
            setEarthOrientationParameters(d, EarthOrientationParameter(d, 0.0, 0.0, 0.0, 0.0, 0.0, 0.0, 32))
        d += dt.timedelta(days=1)


class RunContext:
    """Everything a check needs about one run."""

    def __init__(self, case: dict):
        self.case = case
        self.app = None
        self.db_path = None
        self.dir = None
        self.error = None
        self.steps_done = 0
        self.history: list[dict] = []


def noise_off():
    import numpy as np

    def _zeros(*shape):
        return np.zeros(shape) if shape else 0.0

    np.random.randn = _zeros  # only measurement noise and the GPF use the global stream


def build(case: dict, ctx: RunContext | None = None) -> RunContext:
    """Reset every global, then build the Scenario through the repo's public builder."""
    ctx = ctx or RunContext(case)
    sched = simray.schedule_from_description(case.get("schedule"))
    boot.reset_process_state(sched, job_seed=case.get("job_seed", 0))
    if case.get("noise") == "off":
        noise_off()
    # the machine's local time zone is part of the simulated environment (POSIX TZ rule, no tzdata needed); UTC unless the case draws one
    import time as _time

    os.environ["TZ"] = case.get("tz") or "UTC"
    _time.tzset()
    cfg = case["config"]
    start = parse_ts(cfg["time"]["start_timestamp"])
    stop = parse_ts(cfg["time"]["stop_timestamp"])
    if case.get("eop_synth"):
        span_days = int(case.get("eop_span_days", 3))
        install_synthetic_eop(start.date() - dt.timedelta(days=1), stop.date() + dt.timedelta(days=span_days))
    from resonaate.scenario import buildScenarioFromConfigDict

    ctx.dir = case.get("_dir") or os.path.join(scratch_dir(), f"run-{os.getpid()}")
    os.makedirs(ctx.dir, exist_ok=True)
    ctx.db_path = os.path.join(ctx.dir, "out.sqlite3")
    if os.path.exists(ctx.db_path):
        os.remove(ctx.db_path)
    ctx.app = buildScenarioFromConfigDict(cfg, internal_db_path=ctx.db_path, importer_db_path=case.get("importer_db_url"))
    return ctx


def run_plan(ctx: RunContext, on_step=None):
    """Execute the run plan: a list of cumulative durations (seconds) driven like the CLI does."""
    from resonaate.physics.time.conversions import getTargetJulianDate

    app = ctx.app
    for item in ctx.case["plan"]:
        target = getTargetJulianDate(app.clock.julian_date_start, dt.timedelta(seconds=item["seconds"]))
        app.propagateTo(target)


def cleanup(ctx: RunContext):
    if ctx.dir and os.path.isdir(ctx.dir):
        shutil.rmtree(ctx.dir, ignore_errors=True)


def read_db(path: str, sql: str, args=()):
    con = sqlite3.connect(f"file:{path}?mode=ro", uri=True)
    try:
        return con.execute(sql, args).fetchall()
    finally:
        con.close()


def wrap_method(cls, name, before=None, after=None, tag=None):
    """Install a recording wrapper on ``cls.name``; wrappers stack, each tag is applied once."""
    import functools

    orig = cls.__dict__.get(name)
    if orig is None:
        orig = getattr(cls, name)
    tag = tag or f"{getattr(before, '__qualname__', None)}|{getattr(after, '__qualname__', None)}"
    tags = getattr(orig, "_rsim_tags", frozenset())
    if tag in tags:
        return

    @functools.wraps(orig)
    def wrapper(self, *a, **k):
        tok = before(self, *a, **k) if before else None
        res = orig(self, *a, **k)
        if after:
            after(self, tok, res, *a, **k)
        return res

    wrapper._rsim_tags = tags | {tag}  # noqa: SLF001
    wrapper._rsim_orig = orig  # noqa: SLF001
    setattr(cls, name, wrapper)


def history_digest(ctx: RunContext, extra=None) -> str:
    """Digest of everything observable about a run: scheduler trace, final agent states, DB rows."""
    import hashlib

    h = hashlib.sha256()
    h.update(repr(simray.STATE.trace).encode())
    h.update(repr(simray.STATE.kvs_log).replace(ctx.dir or '\0', '<run-dir>').encode())
    app = ctx.app
    if app is not None:
        for aid in sorted(app.target_agents):
            h.update(repr((aid, [float(x).hex() for x in app.target_agents[aid].eci_state])).encode())
        for aid in sorted(app.sensor_agents):
            s = app.sensor_agents[aid]
            h.update(repr((aid, [float(x).hex() for x in s.eci_state], [float(x).hex() for x in s.sensors.boresight], float(s.sensors.time_last_tasked).hex())).encode())
        for aid in sorted(app.estimate_agents):
            e = app.estimate_agents[aid]
            h.update(repr((aid, [float(x).hex() for x in e.state_estimate], [float(x).hex() for x in e.error_covariance.ravel()])).encode())
    if ctx.db_path and os.path.exists(ctx.db_path):
        con = sqlite3.connect(f"file:{ctx.db_path}?mode=ro", uri=True)
        try:
            tables = [r[0] for r in con.execute("select name from sqlite_master where type='table' order by name")]
            for t in tables:
                rows = con.execute(f"select * from {t}").fetchall()  # noqa: S608
                h.update(t.encode())
                h.update(repr(sorted(repr(r) for r in rows)).encode())
        finally:
            con.close()
    if extra is not None:
        h.update(repr(extra).encode())
    return h.hexdigest()[:24]
