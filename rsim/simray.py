"""simray - a deterministic, in-process stand-in for the subset of Ray that resonaate uses.

Installed as ``sys.modules["ray"]`` *before* resonaate is imported (see :mod:`rsim.boot`).
Everything Ray decides nondeterministically is decided here by one :class:`Schedule` object:

* **when a task body executes** (at submit, when chosen by ``wait``, or the whole batch at the
  first ``wait`` in a drawn order),
* **in which order ``wait`` reports completions** (the order ``JobExecutor.join`` merges results),
* **faults**: task retry (the body runs twice on fresh copies of its arguments, second result is
  delivered), worker death (``get`` raises :class:`WorkerDiedError`).

Semantics kept faithful to Ray where a property may depend on them: arguments are pickled at
``.remote()`` time, results are pickled at completion, ``put`` pickles and every ``get``
unpickles a fresh copy.  ``ObjectRef`` objects nested in pickled data survive by identity.

The module keeps *no* wall-clock or OS-entropy dependence; all decisions come from the schedule
and are appended to ``STATE.trace`` so that a run can be digested and replayed.
"""

from __future__ import annotations

import pickle
import random
from typing import Any, Callable

__version__ = "0.0-simray"


class WorkerDiedError(RuntimeError):
    """Raised by ``get`` for a task whose (simulated) worker died without retry."""


class RayTaskError(RuntimeError):
    """Kept for API compatibility."""


# ---------------------------------------------------------------------------------------------
# object refs
# ---------------------------------------------------------------------------------------------
_REGISTRY: dict[int, "ObjectRef"] = {}


def _lookup(ref_id: int) -> "ObjectRef":
    return _REGISTRY[ref_id]


class ObjectRef:
    """Handle to a value in the simulated object store (pickled by identity)."""

    __slots__ = ("id", "kind", "label", "thunk", "blob", "done", "error", "executions", "submit_no", "__weakref__")

    def __init__(self, kind: str, label: str):
        STATE.ref_counter += 1
        self.id = STATE.ref_counter
        self.kind = kind  # "task" | "put" | "actor"
        self.label = label
        self.thunk: Callable[[], Any] | None = None
        self.blob: bytes | None = None
        self.done = False
        self.error: BaseException | None = None
        self.executions = 0
        self.submit_no = -1
        _REGISTRY[self.id] = self

    def __reduce__(self):
        return (_lookup, (self.id,))

    def __hash__(self):
        return self.id

    def __eq__(self, other):
        return self is other

    def __repr__(self):
        return f"ObjectRef({self.id},{self.kind},{self.label})"


# ---------------------------------------------------------------------------------------------
# schedules
# ---------------------------------------------------------------------------------------------
class Schedule:
    """Base schedule: FIFO completion, eager execution, no faults."""

    name = "fifo"
    exec_mode = "eager"  # eager | lazy | batch

    def pick(self, batch_no: int, labels: list[str], remaining: list[int]) -> int:
        """Return the index (into ``remaining``) of the job reported complete next."""
        return 0

    def exec_order(self, batch_no: int, n: int) -> list[int]:
        """Order in which a whole batch executes in ``batch`` mode."""
        return list(range(n))

    def retry(self, submit_no: int, label: str) -> bool:
        return False

    def die(self, submit_no: int, label: str) -> bool:
        return False

    def describe(self) -> dict:
        return {"name": self.name, "exec_mode": self.exec_mode}


class Lifo(Schedule):
    name = "lifo"

    def pick(self, batch_no, labels, remaining):
        return len(remaining) - 1


class Seeded(Schedule):
    """Every decision drawn from ``random.Random(seed)``; mode and fault rates fixed at creation."""

    name = "seeded"

    def __init__(self, seed, exec_mode=None, retry_rate=0.0, die_at=None):
        self.seed = seed
        self.rng = random.Random(f"{seed}/sched")
        self.exec_mode = exec_mode or self.rng.choice(["eager", "lazy", "batch"])
        self.retry_rate = retry_rate
        self.die_at = die_at
        self.frng = random.Random(f"{seed}/sched-faults")

    def pick(self, batch_no, labels, remaining):
        return self.rng.randrange(len(remaining))

    def exec_order(self, batch_no, n):
        order = list(range(n))
        self.rng.shuffle(order)
        return order

    def retry(self, submit_no, label):
        return self.retry_rate > 0 and self.frng.random() < self.retry_rate

    def die(self, submit_no, label):
        return self.die_at is not None and submit_no == self.die_at

    def describe(self):
        return {"name": self.name, "seed": self.seed, "exec_mode": self.exec_mode, "retry_rate": self.retry_rate, "die_at": self.die_at}


class Scripted(Schedule):
    """Explicit completion permutations for chosen batches; everything else FIFO.

    ``perms`` maps batch number -> list of *original submit positions within the batch* in the
    order they are to be reported complete.  Unknown batches / positions fall back to FIFO, so a
    script stays valid while a case is being shrunk.
    """

    name = "scripted"

    def __init__(self, perms: dict[int, list[int]], exec_mode="eager", retries=(), die_at=None, default="fifo"):
        self.perms = {int(k): list(v) for k, v in perms.items()}
        self.exec_mode = exec_mode
        self.retries = set(retries)
        self.die_at = die_at
        self.default = default
        self._cursor: dict[int, int] = {}

    def pick(self, batch_no, labels, remaining):
        perm = self.perms.get(batch_no)
        if perm is None:
            return len(remaining) - 1 if self.default == "lifo" else 0
        cur = self._cursor.get(batch_no, 0)
        while cur < len(perm):
            want = perm[cur]
            cur += 1
            if want in remaining:
                self._cursor[batch_no] = cur
                return remaining.index(want)
        self._cursor[batch_no] = cur
        return 0

    def exec_order(self, batch_no, n):
        perm = [p for p in self.perms.get(batch_no, []) if p < n]
        return perm + [i for i in range(n) if i not in perm]

    def retry(self, submit_no, label):
        return submit_no in self.retries

    def die(self, submit_no, label):
        return self.die_at is not None and submit_no == self.die_at

    def describe(self):
        return {"name": self.name, "perms": {str(k): v for k, v in self.perms.items()}, "exec_mode": self.exec_mode,
                "retries": sorted(self.retries), "die_at": self.die_at, "default": self.default}


def schedule_from_description(desc: dict | None) -> Schedule:
    if not desc or desc.get("name") == "fifo":
        s = Schedule()
        if desc and desc.get("exec_mode"):
            s.exec_mode = desc["exec_mode"]
        return s
    if desc["name"] == "lifo":
        s = Lifo()
        s.exec_mode = desc.get("exec_mode", "eager")
        return s
    if desc["name"] == "seeded":
        return Seeded(desc["seed"], desc.get("exec_mode"), desc.get("retry_rate", 0.0), desc.get("die_at"))
    if desc["name"] == "scripted":
        return Scripted(desc.get("perms", {}), desc.get("exec_mode", "eager"), desc.get("retries", ()), desc.get("die_at"), desc.get("default", "fifo"))
    raise ValueError(desc)


# ---------------------------------------------------------------------------------------------
# global simulator state (reset per run)
# ---------------------------------------------------------------------------------------------
class _State:
    def __init__(self):
        self.reset()

    def reset(self, schedule: Schedule | None = None, job_seed: int | None = None):
        _REGISTRY.clear()
        self.ref_counter = 0
        self.submit_counter = 0
        self.batch_no = -1
        self.batch_members: dict[int, list[ObjectRef]] = {}
        self.seen_in_wait: set[int] = set()
        self.cur_batch_refs: list[ObjectRef] = []
        self.actors: dict[str, Any] = {}
        self.initialized = False
        self.schedule = schedule or Schedule()
        self.job_seed = job_seed
        self.trace: list[tuple] = []          # (kind, ...) decisions and events, digestable
        self.batches: list[dict] = []         # per batch: labels, completion order, exec order
        self.stats = {"tasks": 0, "retries": 0, "deaths": 0, "puts": 0, "gets": 0, "waits": 0,
                      "actor_calls": 0, "batches_multi": 0}
        self.hooks: dict[str, list[Callable]] = {"submit": [], "complete": [], "execute": []}
        self.kvs_log: list[tuple] = []
        self.pending: list[ObjectRef] = []     # submitted, not yet executed (lazy/batch modes)


STATE = _State()


def reset(schedule: Schedule | None = None, job_seed: int | None = None):
    STATE.reset(schedule, job_seed)


# ---------------------------------------------------------------------------------------------
# tasks
# ---------------------------------------------------------------------------------------------
def _seed_job(ref: ObjectRef, attempt: int):
    """Give each job its own NumPy global stream: f(run seed, submit number).

    In real Ray every worker process owns an unrelated global NumPy stream, so noise is not a
    function of completion order; keying the stream on the submit ordinal reproduces that
    independence deterministically (re-execution after a worker death draws a fresh stream).
    """
    if STATE.job_seed is None:
        return
    import numpy as np

    # a re-executed (retried) job gets the same stream again: results then stay comparable across
    # schedules, and the retry exposes only duplicated side effects (KVS pushes, shared state)
    np.random.seed((STATE.job_seed * 1000003 + ref.submit_no * 7919) % (2**32))


def _execute(ref: ObjectRef):
    if ref.done or ref.thunk is None:
        return
    sched = STATE.schedule
    attempts = 1
    if sched.retry(ref.submit_no, ref.label):
        attempts = 2
        STATE.stats["retries"] += 1
        STATE.trace.append(("retry", ref.submit_no, ref.label))
    if sched.die(ref.submit_no, ref.label):
        STATE.stats["deaths"] += 1
        STATE.trace.append(("die", ref.submit_no, ref.label))
        ref.error = WorkerDiedError(f"simulated worker death in {ref.label} (submit {ref.submit_no})")
        ref.done = True
        ref.thunk = None
        return
    result = None
    for attempt in range(attempts):
        _seed_job(ref, attempt)
        ref.executions += 1
        for h in STATE.hooks["execute"]:
            h(ref, attempt)
        try:
            result = ref.thunk()
        except BaseException as exc:  # noqa: BLE001 - delivered at get(), as Ray does
            ref.error = exc
            result = None
            break
    if ref.error is None:
        ref.blob = pickle.dumps(result, protocol=pickle.HIGHEST_PROTOCOL)
    ref.done = True
    ref.thunk = None
    STATE.trace.append(("exec", ref.submit_no, ref.label))


class RemoteFunction:
    def __init__(self, func):
        self._function = func
        self.__name__ = getattr(func, "__name__", "remote")
        self.__doc__ = getattr(func, "__doc__", None)

    def __call__(self, *a, **k):
        raise TypeError("Remote functions cannot be called directly; use .remote()")

    def options(self, **_kw):
        return self

    def remote(self, *args, **kwargs) -> ObjectRef:
        ref = ObjectRef("task", self.__name__)
        ref.submit_no = STATE.submit_counter
        STATE.submit_counter += 1
        STATE.stats["tasks"] += 1
        blob = pickle.dumps((args, kwargs), protocol=pickle.HIGHEST_PROTOCOL)
        func = self._function

        def thunk():
            a, k = pickle.loads(blob)
            return func(*a, **k)

        ref.thunk = thunk
        STATE.trace.append(("submit", ref.submit_no, ref.label))
        for h in STATE.hooks["submit"]:
            h(ref, args, kwargs)
        if STATE.schedule.exec_mode == "eager":
            _execute(ref)
        else:
            STATE.pending.append(ref)
        return ref


class _ActorMethod:
    def __init__(self, actor, name):
        self._actor = actor
        self._name = name

    def remote(self, *args, **kwargs) -> ObjectRef:
        STATE.stats["actor_calls"] += 1
        a, k = pickle.loads(pickle.dumps((args, kwargs), protocol=pickle.HIGHEST_PROTOCOL))
        ref = ObjectRef("actor", self._name)
        try:
            res = getattr(self._actor.instance, self._name)(*a, **k)
            ref.blob = pickle.dumps(res, protocol=pickle.HIGHEST_PROTOCOL)
        except BaseException as exc:  # noqa: BLE001
            ref.error = exc
        ref.done = True
        if self._name == "executeTransaction" and a:
            tx = a[0]
            STATE.kvs_log.append((type(tx).__name__, getattr(tx, "key", None), _short(getattr(tx, "request_payload", None))))
        return ref


def _short(v):
    if isinstance(v, (str, int, float, type(None))):
        return v
    return type(v).__name__


class ActorHandle:
    def __init__(self, cls, args, kwargs):
        self.instance = cls(*args, **kwargs)

    def __getattr__(self, name):
        if name.startswith("__"):
            raise AttributeError(name)
        return _ActorMethod(self, name)

    def __reduce__(self):
        raise pickle.PicklingError("ActorHandle pickling not modelled")


class RemoteClass:
    def __init__(self, cls, name=None, get_if_exists=False):
        self._cls = cls
        self._name = name
        self._get_if_exists = get_if_exists

    def options(self, name=None, get_if_exists=False, **_kw):
        return RemoteClass(self._cls, name, get_if_exists)

    def remote(self, *args, **kwargs):
        if self._name is not None and self._name in STATE.actors:
            if self._get_if_exists:
                return STATE.actors[self._name]
            raise ValueError(f"actor {self._name} exists")
        handle = ActorHandle(self._cls, args, kwargs)
        if self._name is not None:
            STATE.actors[self._name] = handle
        return handle


def remote(*args, **kwargs):
    if len(args) == 1 and not kwargs and callable(args[0]):
        target = args[0]
        if isinstance(target, type):
            return RemoteClass(target)
        return RemoteFunction(target)

    def deco(target):
        if isinstance(target, type):
            return RemoteClass(target)
        return RemoteFunction(target)

    return deco


# ---------------------------------------------------------------------------------------------
# object store API
# ---------------------------------------------------------------------------------------------
def put(value) -> ObjectRef:
    STATE.stats["puts"] += 1
    ref = ObjectRef("put", type(value).__name__)
    ref.blob = pickle.dumps(value, protocol=pickle.HIGHEST_PROTOCOL)
    ref.done = True
    return ref


def _get_one(ref: ObjectRef):
    if not isinstance(ref, ObjectRef):
        raise TypeError(f"get() expects ObjectRef, got {type(ref)}")
    if not ref.done:
        # a get() on an unfinished task forces it (and, in Ray, blocks until then)
        _flush_pending_upto(ref)
    if ref.error is not None:
        raise ref.error
    STATE.stats["gets"] += 1
    return pickle.loads(ref.blob)


def get(refs, timeout=None):  # noqa: ARG001
    if isinstance(refs, list):
        return [_get_one(r) for r in refs]
    return _get_one(refs)


def _flush_pending_upto(ref: ObjectRef):
    if ref in STATE.pending:
        STATE.pending.remove(ref)
    _execute(ref)


def wait(refs, num_returns=1, timeout=None, fetch_local=True):  # noqa: ARG001
    if num_returns != 1:
        raise NotImplementedError("simray.wait models num_returns=1 only (all resonaate uses)")
    refs = list(refs)
    if not refs:
        return [], []
    STATE.stats["waits"] += 1
    sched = STATE.schedule
    new_batch = any(r.id not in STATE.seen_in_wait for r in refs)
    if new_batch:
        STATE.batch_no += 1
        STATE.cur_batch_refs = list(refs)
        for r in refs:
            STATE.seen_in_wait.add(r.id)
        STATE.batches.append({"batch": STATE.batch_no, "labels": [r.label for r in refs],
                              "submit": [r.submit_no for r in refs], "order": [], "exec": None})
        if len(refs) > 1:
            STATE.stats["batches_multi"] += 1
        if sched.exec_mode == "batch":
            order = sched.exec_order(STATE.batch_no, len(refs))
            STATE.batches[-1]["exec"] = list(order)
            STATE.trace.append(("exec_order", STATE.batch_no, tuple(order)))
            for i in order:
                r = refs[i]
                if r in STATE.pending:
                    STATE.pending.remove(r)
                _execute(r)
    batch = STATE.cur_batch_refs
    remaining_pos = [batch.index(r) for r in refs]
    idx = sched.pick(STATE.batch_no, [r.label for r in refs], remaining_pos)
    if not 0 <= idx < len(refs):
        raise RuntimeError(f"schedule returned invalid index {idx} for {len(refs)} jobs")
    chosen = refs[idx]
    if not chosen.done:
        if chosen in STATE.pending:
            STATE.pending.remove(chosen)
        _execute(chosen)
    STATE.batches[-1]["order"].append(remaining_pos[idx])
    STATE.trace.append(("complete", STATE.batch_no, remaining_pos[idx], chosen.label))
    for h in STATE.hooks["complete"]:
        h(chosen, STATE.batch_no, remaining_pos[idx])
    rest = refs[:idx] + refs[idx + 1:]
    return [chosen], rest


# ---------------------------------------------------------------------------------------------
# lifecycle API
# ---------------------------------------------------------------------------------------------
def init(*_a, **_k):
    STATE.initialized = True
    return {}


def is_initialized():
    return STATE.initialized


def shutdown(*_a, **_k):
    STATE.initialized = False


def timeline(*_a, **_k):
    return []


def kill(*_a, **_k):
    return None


def get_actor(name):
    return STATE.actors[name]


class _Exceptions:
    RayTaskError = RayTaskError
    WorkerCrashedError = WorkerDiedError
    RayError = RuntimeError


exceptions = _Exceptions()
