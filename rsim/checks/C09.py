"""C09 - the output database is complete, duplicate-free and referentially consistent, and a
step's rows are committed all together or not at all.

Fault-free profile: SQL audit (rsim.oracles.dbaudit) of the file a clean run leaves.
Crash profile (fault enumeration): the same case is re-run with a fault injected at a chosen
database statement or commit - hard kill (os._exit in a forked process), interrupt
(KeyboardInterrupt), database error (OperationalError: disk I/O error / disk full / locked) - or a
worker death; the *durable* state read by a fresh connection must equal the clean run's state
after the last commit that completed before the fault.
"""

from __future__ import annotations

import datetime as dt
import json
import os
import random
import shutil

import numpy as np

from .. import dbfaults, gen, probes, simray
from ..core import Check, jdigest, result_template, run_one_forked, scratch_dir
from ..oracles import dbaudit
from ..oracles import exacttime as xt
from ..run import RunContext, build, cleanup, fmt_ts, parse_ts, run_plan
from .common import generic_shrinks, raised_in_harness, time_info, variant

MESSAGES = ["disk I/O error", "database or disk is full", "database is locked"]


def hexes(a):
    return [float(x).hex() for x in np.asarray(a, dtype=float).ravel()]


def _execute(case, plan=None):
    """Run the case with the DB seam armed; returns (ctx, error)."""
    probes.reset()
    dbfaults.reset(plan)
    ctx = RunContext(case)
    err = None
    try:
        build(case, ctx)
        run_plan(ctx)
    except KeyboardInterrupt as exc:
        err = exc
        try:
            if ctx.app is not None:
                ctx.app.shutdown()   # what runResonaate does after Ctrl-C
        except Exception:  # noqa: BLE001,S110
            pass
    except Exception as exc:  # noqa: BLE001
        err = exc
    return ctx, err


def _fault_run(arg):
    case, plan = arg
    ctx, err = _execute(case, plan)
    if err is not None and raised_in_harness(err) and not isinstance(err, KeyboardInterrupt):
        raise err
    return {"error": None if err is None else f"{type(err).__name__}: {str(err)[:200]}", "fired": dbfaults.STATE["fired"],
            "stmts": dbfaults.STATE["stmts"], "commits": dbfaults.STATE["commits"]}


class C09(Check):
    pid = "C09"
    level = "fault_enumeration"
    quick_budget_s = 90.0
    thorough_budget_s = 1500.0
    per_run_timeout_s = 900.0
    quick_faults = 8
    thorough_faults = 400
    rule = ("case = scenario (physics/output step equal, multiple or non-multiple; 1-3 consecutive run calls, possibly past the configured stop; membership events; "
            "with/without estimation, filter-step saving, maneuver detection) audited after a clean run and after each injected fault (kill / interrupt / DB error at a "
            "statement or commit, worker death); non-trivial = clean run performed >= 2 commits and >= 1 fault landed after the first commit; "
            "distinct = digest of (config, plan, fault plan)")
    assumptions = [
        "SQLite's own atomic commit is trusted: kills are injected between statements and before commits, not inside SQLite's C code",
        "durable state = rows a fresh sqlite3 connection reads from the file (hot-journal recovery included)",
        "expected agent sets and states at each output epoch are the ones the scenario held in memory after that step",
        "enumeration is exhaustive per case only in the thorough tier and only for cases with <= 400 statements",
    ]
    real_components = ["Scenario / saveDatabaseOutput / ScenarioClock epoch insertion", "DataInterface session scope (commit/rollback)", "SQLAlchemy ORM + SQLite file on tmpfs", "all ORM row classes"]
    stub_components = ["ray (rsim.simray)"]

    def setup(self, tier):
        self.tier = tier
        probes.install_step_recorder()
        dbfaults.install()

    # -- generation ---------------------------------------------------------------------------
    def gen(self, rng: random.Random, tier: str, index: int) -> dict:
        step = rng.choice([30, 60, 60, 120, 300])
        mode = rng.random()
        if mode < 0.1:
            out = step // rng.choice([2, 3])      # finer than the physics step: every step is an output step
        elif mode < 0.4:
            out = step
        elif mode < 0.75:
            out = step * rng.choice([2, 3])
        else:
            out = step * 3 // 2
        ncfg = rng.randrange(2, 7)
        truth_only = rng.random() < 0.35
        det = rng.random() < 0.4
        est = gen.estimation_block(dynamics="two_body", save_filter_steps=rng.random() < 0.4,
                                   **({"maneuver_detection": rng.choice([{"name": "standard_nis", "threshold": 0.05}, {"name": "sliding_nis", "threshold": 0.05, "window_size": 2}])} if det else {}))
        cfg = gen.network_case(rng, nsteps=ncfg, step=step, n_sensors=rng.randrange(1, 4), n_targets=rng.randrange(1, 4), model="two_body", truth_only=truth_only,
                               two_engines_p=0.2, space_sensor_p=0.15, geo_p=0.8, placed_p=0.95, estimation=est, kinds=("radar", "adv_radar", "optical"))
        cfg["time"]["output_step_sec"] = out
        S = parse_ts(cfg["time"]["start_timestamp"])
        nrun = ncfg if rng.random() < 0.65 else ncfg + rng.randrange(1, 5)
        events = []
        tids = sorted({t["id"] for e in cfg["engines"] for t in e["targets"]})
        if rng.random() < 0.35:
            orb = gen.draw_orbit(rng, "geo")
            events.append({"scope": "scenario_step", "scope_instance_id": 0, "event_type": "target_addition", "start_time": fmt_ts(S + dt.timedelta(seconds=step * rng.randrange(1, nrun + 1))),
                           "tasking_engine_id": cfg["engines"][0]["unique_id"], "target_agent": gen.eci_target(20001, orb["pos"], orb["vel"])})
        if rng.random() < 0.25 and len(cfg["engines"][0]["targets"]) > 1:
            only = [t["id"] for t in cfg["engines"][0]["targets"] if sum(t["id"] in [x["id"] for x in e2["targets"]] for e2 in cfg["engines"]) == 1]
            if only:
                events.append({"scope": "scenario_step", "scope_instance_id": 0, "event_type": "agent_removal", "start_time": fmt_ts(S + dt.timedelta(seconds=step * rng.randrange(1, nrun + 1))),
                               "tasking_engine_id": cfg["engines"][0]["unique_id"], "agent_id": rng.choice(only), "agent_type": "target"})
        if rng.random() < 0.25:
            eng = rng.choice(cfg["engines"])
            all_vis = eng["decision"]["name"] == "AllVisibleDecision"
            T = fmt_ts(S + dt.timedelta(seconds=step * rng.randrange(1, nrun + 1)))
            if rng.random() < 0.6:
                lat, lon, alt = gen.draw_site(rng)
                agent = gen.ground_sensor(95001, lat, lon, alt, gen.sensor_block("adv_radar" if all_vis else rng.choice(["optical", "radar", "adv_radar"]), coarse=True))
            else:
                orb = gen.draw_orbit(rng, rng.choice(["leo", "geo"]))
                agent = gen.space_sensor(95001, orb["pos"], orb["vel"], gen.sensor_block("adv_radar" if all_vis else rng.choice(["optical", "adv_radar"]), coarse=True))
            events.append({"scope": "scenario_step", "scope_instance_id": 0, "event_type": "sensor_addition", "start_time": T, "tasking_engine_id": eng["unique_id"], "sensor_agent": agent})
        if rng.random() < 0.15:
            eng = rng.choice(cfg["engines"])
            if len(eng["sensors"]) > 1:
                events.append({"scope": "scenario_step", "scope_instance_id": 0, "event_type": "agent_removal", "start_time": fmt_ts(S + dt.timedelta(seconds=step * rng.randrange(1, nrun + 1))),
                               "tasking_engine_id": eng["unique_id"], "agent_id": rng.choice(eng["sensors"])["id"], "agent_type": "sensor"})
        removed = {e.get("agent_id") for e in events}
        if det and rng.random() < 0.8:
            cands = [t for t in tids if t not in removed]
            if cands:
                events.append({"scope": "agent_propagation", "scope_instance_id": rng.choice(cands), "event_type": "impulse",
                               "start_time": fmt_ts(S + dt.timedelta(seconds=step * rng.randrange(1, max(2, nrun)) - step // 2)),
                               "thrust_vector": [rng.uniform(-0.02, 0.02) for _ in range(3)], "thrust_frame": "eci", "planned": False})
        cfg["events"] = events
        ncalls = rng.choice([1, 1, 2, 3])
        cuts = sorted(rng.sample(range(1, nrun), min(nrun - 1, ncalls - 1))) if nrun > 1 else []
        plan = [{"seconds": c * step + (rng.randrange(1, step) if rng.random() < 0.3 else 0)} for c in cuts] + [{"seconds": nrun * step}]
        return {"config": cfg, "plan": plan, "schedule": {"name": "seeded", "seed": rng.randrange(2**31)}, "job_seed": rng.randrange(2**31), "fault_seed": rng.randrange(2**31), "tz": gen.draw_tz(rng)}

    def sample_view(self, case):
        t = case["config"]["time"]
        return {"time": t, "plan": case["plan"], "truth_only": case["config"]["propagation"]["truth_simulation_only"],
                "events": [e["event_type"] for e in case["config"].get("events", [])], "faults": case.get("faults", "drawn from the clean run's statement count")}

    # -- oracle -------------------------------------------------------------------------------
    def run(self, case: dict) -> dict:  # noqa: C901, PLR0912, PLR0915
        res = result_template()
        viol, cnt = res["violations"], res["counters"]
        res["key"] = jdigest([case["config"], case["plan"], case.get("fault_seed"), case.get("faults")])
        S, step, out, ncfg = time_info(case)
        base_dir = os.path.join(scratch_dir(), f"c09-{os.getpid()}")
        os.makedirs(base_dir, exist_ok=True)
        clean_case = dict(case)
        clean_case["_dir"] = os.path.join(base_dir, "clean")
        os.makedirs(clean_case["_dir"], exist_ok=True)
        try:
            ctx, err = _execute(clean_case)
            if err is not None and raised_in_harness(err):
                raise err
            if err is not None:
                name = type(err).__name__
                cnt[f"aborted_{name}"] = 1
                if ctx.app is None:
                    res["skipped"] = f"build-failed:{name}"
                    return res
            snaps = {sn["k"]: sn for sn in probes.of_kind("snap")}
            truth_only = case["config"]["propagation"]["truth_simulation_only"]
            if 0 not in snaps and ctx.app is not None:
                snaps[0] = probes.snapshot_app(ctx.app) if not snaps else snaps.get(0)
            nrun = max(snaps) if snaps else 0
            # expected output epochs: initial state + every step whose time is a multiple of the output step
            saves = {}
            save_times = {round(r["time"]) for r in probes.of_kind("save")}
            for k in range(0, nrun + 1):
                if k != 0 and (k * step) % out != 0:
                    continue
                if err is not None and k == nrun and (k * step) not in save_times:
                    continue  # the run died inside/after the last step before saving: nothing is owed for it
                sn = snaps.get(k)
                if sn is None:
                    continue
                saves[k] = {"truth_agents": list(sn["targets"]) + list(sn["sensors"]),
                            "truth_states": {aid: hexes(v) for aid, v in list(sn["targets"].items()) + list(sn["sensors"].items())},
                            "estimates": None if truth_only else list(sn.get("estimates", {})),
                            "estimate_states": {aid: (hexes(x), hexes(p)) for aid, (x, p) in sn.get("estimates", {}).items()}}
            if 0 not in saves and ctx.app is not None and 0 in save_times:
                pass
            expect = {"start_us": xt.to_us(S), "step_us": step * 1_000_000, "ncfg": ncfg, "saves": saves}
            rows = dbfaults.table_rows(ctx.db_path)
            colnames = dbfaults.table_columns(ctx.db_path)
            # k=0 states: the snapshot recorder only starts at the first step; take the stored initial rows on trust for values
            if 0 in saves and 0 not in {sn for sn in snaps if snaps[sn] is not None}:
                pass
            dbaudit.audit(rows, colnames, expect, viol, cnt)
            cnt["clean_runs_audited"] = 1
            for e in case["config"].get("events", []):
                nm = e["event_type"] + ("_" + e["agent_type"] if e["event_type"] == "agent_removal" else "") + ("_" + e["sensor_agent"]["platform"]["type"] if e["event_type"] == "sensor_addition" else "")
                cnt["runs_with_" + nm] = 1
            cnt["steps"] = nrun
            if nrun > ncfg:
                cnt["ran_past_configured_stop"] = 1
            if out % step:
                cnt["output_step_not_multiple_of_physics_step"] = 1
            elif out > step:
                cnt["output_step_multiple"] = 1
            if rows.get("detected_maneuvers"):
                cnt["runs_with_detected_maneuver_rows"] = 1
            if rows.get("filterstep"):
                cnt["runs_with_filter_step_rows"] = 1
            # all rows of one epoch become durable in one commit
            snapshots = list(dbfaults.STATE["snapshots"])
            stmt_at_commit = list(dbfaults.STATE["stmt_at_commit"])
            total_stmts = dbfaults.STATE["stmts"]
            first_seen = {}
            for ci, snap in enumerate(snapshots):
                for table in ("truth_ephemerides", "estimate_ephemerides", "observations", "missed_observations", "tasks", "detected_maneuvers", "filterstep"):
                    if table not in snap or table not in colnames:
                        continue
                    jc = colnames[table].index("julian_date")
                    for r in snap[table]:
                        first_seen.setdefault((table, r[0]), (ci, r[jc]))
            per_commit = {}
            for (table, _rid), (ci, jd) in first_seen.items():
                per_commit.setdefault(ci, set()).add(table)
            # rows of the same output save appear in one commit: every commit that adds truth rows also adds that step's other rows
            truth_commits = sorted(ci for ci, tabs in per_commit.items() if "truth_ephemerides" in tabs)
            other_commits = sorted(ci for ci, tabs in per_commit.items() if "truth_ephemerides" not in tabs)
            if other_commits:
                viol.append({"clause": "step-rows-split-across-commits", "key": "commit", "detail": f"commits {other_commits[:5]} add rows of {[sorted(per_commit[c]) for c in other_commits[:3]]} without that save's truth rows: a save is not one transaction"})
            if len(truth_commits) != len(saves) and err is None:
                viol.append({"clause": "step-rows-split-across-commits", "key": "count", "detail": f"{len(saves)} output saves expected but truth rows became durable in {len(truth_commits)} commits"})
            snap_digests = [dbfaults.digest_rows(s) for s in snapshots]
            cnt["commits_in_clean_run"] = len(snapshots)
            cnt["statements_in_clean_run"] = total_stmts
            res["digest"] = jdigest([snap_digests, viol])
            if viol or err is not None:
                res["nontrivial"] = len(snapshots) >= 2
                return res

            # ---- fault profile
            faults = case.get("faults")
            if faults is None:
                frng = random.Random(case["fault_seed"])
                cap = self.quick_faults if getattr(self, "tier", "quick") == "quick" else self.thorough_faults
                first_data_stmt = stmt_at_commit[0] if stmt_at_commit else 1
                if cap >= total_stmts:
                    pts = list(range(1, total_stmts + 1))
                    cnt["cases_with_every_statement_killed"] = 1
                else:
                    pts = sorted(frng.sample(range(max(1, first_data_stmt), total_stmts + 1), min(cap, total_stmts - first_data_stmt + 1)))
                faults = []
                for n in pts:
                    kind = frng.choice(["kill", "kill", "kill", "interrupt", "error"])
                    f = {"kind": kind, "at_stmt": n}
                    if kind == "error":
                        f["message"] = frng.choice(MESSAGES)
                    faults.append(f)
                for _ in range(2):
                    faults.append({"kind": frng.choice(["kill", "error", "interrupt"]), "at_commit": frng.randrange(1, len(snapshots) + 1), "message": frng.choice(MESSAGES)})
                faults.append({"kind": "worker_death", "at_submit": frng.randrange(0, max(1, simray.STATE.submit_counter))})
            landed_late = 0
            for fi, f in enumerate(faults):
                fdir = os.path.join(base_dir, f"f{fi}")
                os.makedirs(fdir, exist_ok=True)
                c2 = dict(case)
                c2["_dir"] = fdir
                plan = None
                if f["kind"] == "worker_death":
                    sd = dict(case.get("schedule") or {"name": "fifo"})
                    if sd.get("name") in (None, "fifo", "lifo"):
                        sd = {"name": "scripted", "perms": {}, "default": sd.get("name", "fifo")}
                    sd["die_at"] = f["at_submit"]
                    c2["schedule"] = sd
                else:
                    plan = {"kind": f["kind"], "at_stmt": f.get("at_stmt"), "at_commit": f.get("at_commit"), "message": f.get("message", MESSAGES[0]),
                            "sidecar": os.path.join(fdir, "fired.json")}
                payload = run_one_forked(_fault_run, (c2, plan), timeout=300.0)
                dbfile = os.path.join(fdir, "out.sqlite3")
                fired = None
                if os.path.exists(os.path.join(fdir, "fired.json")):
                    with open(os.path.join(fdir, "fired.json")) as fh:
                        fired = json.load(fh)
                if f["kind"] == "kill":
                    if not payload.get("died") and fired is None:
                        cnt["fault_did_not_fire"] = cnt.get("fault_did_not_fire", 0) + 1
                        shutil.rmtree(fdir, ignore_errors=True)
                        continue
                    if not payload.get("died"):
                        raise RuntimeError(f"harness: kill fired but the process survived: {payload}")
                else:
                    if not payload.get("ok"):
                        raise RuntimeError(f"harness: fault run failed: {payload.get('error')}\n{payload.get('trace', '')}")
                    r = payload["result"]
                    if f["kind"] != "worker_death" and r["fired"] is None:
                        cnt["fault_did_not_fire"] = cnt.get("fault_did_not_fire", 0) + 1
                        shutil.rmtree(fdir, ignore_errors=True)
                        continue
                    if f["kind"] == "worker_death":
                        if r["error"] is None or "WorkerDied" not in r["error"]:
                            cnt["fault_did_not_fire"] = cnt.get("fault_did_not_fire", 0) + 1
                            shutil.rmtree(fdir, ignore_errors=True)
                            continue
                        fired = {"stmts": r["stmts"], "commits": r["commits"], "where": "worker death"}
                    elif r["error"] is None:
                        viol.append({"clause": "database-error-swallowed", "key": f["kind"], "detail": f"fault {f} fired ({r['fired']}) but the run continued and finished without raising"})
                res["faults"][f["kind"]] = res["faults"].get(f["kind"], 0) + 1
                done = fired["commits"]
                if done > len(snapshots):
                    raise RuntimeError(f"harness: faulted run completed {done} commits, clean run only {len(snapshots)} (nondeterministic replay?)")
                if done >= 1 and stmt_at_commit and fired["stmts"] - (1 if f.get("at_stmt") else 0) < stmt_at_commit[done - 1]:
                    raise RuntimeError(f"harness: faulted run diverged from the clean run (fired at stmt {fired['stmts']} after {done} commits; clean run finished commit {done} at stmt {stmt_at_commit[done - 1]})")
                want = snapshots[done - 1] if done >= 1 else {}
                try:
                    got = dbfaults.table_rows(dbfile) if os.path.exists(dbfile) else {}
                except Exception as exc:  # noqa: BLE001
                    viol.append({"clause": "database-unreadable-after-fault", "key": f["kind"], "detail": f"after {f} ({fired['where']}): {type(exc).__name__}: {exc}"})
                    shutil.rmtree(fdir, ignore_errors=True)
                    continue
                gd = dbfaults.digest_rows({t: r for t, r in got.items() if r})
                wd = dbfaults.digest_rows({t: r for t, r in want.items() if r})
                if gd != wd:
                    diff = {t: (len(want.get(t, [])), len(got.get(t, []))) for t in set(want) | set(got) if want.get(t, []) != got.get(t, [])}
                    viol.append({"clause": "durable-state-not-a-commit-prefix", "key": f["kind"],
                                 "detail": f"after {f} ({fired['where']}, {done} commits completed) the file holds rows (expected, found) {diff}: not the state after the last completed commit", "fault": f})
                if done >= 1:
                    landed_late += 1
                if fired["where"].startswith("commit"):
                    cnt["fault_inside_commit"] = cnt.get("fault_inside_commit", 0) + 1
                elif done < len(stmt_at_commit) and done >= 1:
                    cnt["fault_inside_open_transaction_or_step"] = cnt.get("fault_inside_open_transaction_or_step", 0) + 1
                shutil.rmtree(fdir, ignore_errors=True)
                if viol:
                    break
            cnt["faults_run"] = len(faults)
            res["nontrivial"] = len(snapshots) >= 2 and landed_late >= 1
            res["sim_seconds"] = float(nrun * step * (1 + len(faults)))
            res["digest"] = jdigest([snap_digests, viol, sorted(res["faults"].items())])
        finally:
            shutil.rmtree(base_dir, ignore_errors=True)
        return res

    def shrink_candidates(self, case, violation):
        if violation.get("fault") and case.get("faults") != [violation["fault"]]:
            yield variant(case, "only-failing-fault", lambda c: c.__setitem__("faults", [violation["fault"]]))
        if case.get("faults") is None and not violation.get("fault"):
            yield variant(case, "no-faults", lambda c: c.__setitem__("faults", []))
        for c in generic_shrinks(case):
            if violation.get("fault") and c.get("_shrunk_by", "").startswith(("steps=", "single-call", "drop-event")):
                c["faults"] = None   # statement indices shift: draw fault points again from the seed
                c.pop("faults")
            yield c
        cfg = case["config"]
        if not cfg["propagation"]["truth_simulation_only"]:
            yield variant(case, "truth-only", lambda c: c["config"]["propagation"].__setitem__("truth_simulation_only", True))
        used = {e.get("scope_instance_id") for e in cfg.get("events", [])} | {e.get("agent_id") for e in cfg.get("events", [])}
        for ei, e in enumerate(cfg["engines"]):
            if len(e["targets"]) > 1:
                for t in e["targets"]:
                    if t["id"] not in used:
                        yield variant(case, f"drop-target-{t['id']}", lambda c, ei=ei, tid=t["id"]: c["config"]["engines"][ei].__setitem__("targets", [x for x in c["config"]["engines"][ei]["targets"] if x["id"] != tid]))
            if len(e["sensors"]) > 1:
                for s in e["sensors"]:
                    yield variant(case, f"drop-sensor-{s['id']}", lambda c, ei=ei, sid=s["id"]: c["config"]["engines"][ei].__setitem__("sensors", [x for x in c["config"]["engines"][ei]["sensors"] if x["id"] != sid]))


CHECK = C09()
