"""C19 - imported ephemerides / observations are used faithfully; the importer stays read-only.

Two-phase cases: phase 1 runs the scenario with realtime propagation and writes its output DB;
rsim.importer turns that file into an importer database with seeded faults (gaps at chosen
(agent, epoch) cells, dropped agents, unrelated extra agents, duplicated rows, shuffled rows);
phase 2 runs the same scenario with targets and/or sensors imported and, in some cases, with
realtime observation off so that the stored observations are the only ones.
"""

from __future__ import annotations

import os
import random
import shutil

import numpy as np

from .. import gen, importer, probes
from ..core import Check, jdigest, result_template, scratch_dir
from ..run import cleanup, wrap_method
from . import sched
from .common import drive, generic_shrinks, raised_in_harness, time_info, variant


def hexes(a):
    return [float(x).hex() for x in np.asarray(a, dtype=float).ravel()]


class C19(Check):
    pid = "C19"
    level = "fault_enumeration"
    quick_budget_s = 75.0
    thorough_budget_s = 1200.0
    per_run_timeout_s = 600.0
    rule = ("case = (scenario, which agent classes are imported, realtime observation on/off, list of importer-file faults); phase 1 produces the importer file, "
            "phase 2 is judged per step; the thorough tier additionally enumerates every (agent, epoch) gap cell of the case; "
            "non-trivial = phase 2 imported >= 1 agent for >= 1 step or had to stop on a gap; distinct = digest of (config, mix, faults)")
    assumptions = [
        "the importer file is the output database of a realtime run of the same scenario (same schema), mutated with sqlite3",
        "checks run as root, so file permissions cannot make the importer file read-only; 'never modified' is decided by SHA-256 of the file and absence of journal/WAL side files",
        "imported observations are de-duplicated by (sensor position, target) as the loader documents; the oracle applies the same documented rule",
    ]
    real_components = ["EphemerisImporter", "ImporterDatabase (SQLAlchemy, SQLite file)", "Scenario.stepForward import branch", "TargetAgent/SensingAgent.importState",
                       "CentralizedTaskingEngine.loadImportedObservations", "EstUpdateRegistration / UKF update"]
    stub_components = ["ray (rsim.simray)"]

    def setup(self, tier):
        self.tier = tier
        sched.install()
        from resonaate.parallel.estimate_update import EstUpdateRegistration

        def before_sub(self, *a, **k):
            # with the position the observation says it was taken from (what the filter predicts the measurement from)
            probes.rec("update_obs", target=self._registrant.simulation_id,  # noqa: SLF001
                       obs=[sched.obs_key(o) + tuple(float(v).hex() for v in np.asarray(o.sensor_eci, dtype=float)[:3]) for o in self._observations])  # noqa: SLF001

        wrap_method(EstUpdateRegistration, "generateSubmission", before=before_sub)

    def gen(self, rng: random.Random, tier: str, index: int) -> dict:
        cfg = gen.network_case(rng, nsteps=rng.randrange(2, 6) if rng.random() < 0.85 else rng.randrange(4, 9), step=None if rng.random() < 0.85 else rng.choice([2, 3, 5, 8]),
                               n_sensors=rng.randrange(1, 4), n_targets=rng.randrange(1, 4), model="two_body",
                               two_engines_p=0.3, space_sensor_p=0.25, geo_p=0.8, placed_p=0.95, out_mult=1, kinds=("radar", "adv_radar", "optical"),
                               decision=rng.choice(["MunkresDecision", "MyopicNaiveGreedyDecision", "AllVisibleDecision"]))
        S, step, out, ncfg = time_info({"config": cfg})
        tids = sorted({t["id"] for e in cfg["engines"] for t in e["targets"]})
        sids = sorted({s["id"] for e in cfg["engines"] for s in e["sensors"]})
        mix = rng.choice(["targets", "targets", "sensors", "both", "both", "none"])
        imported = (tids if mix in ("targets", "both") else []) + (sids if mix in ("sensors", "both") else [])
        muts = []
        m = rng.random()
        if imported and m < 0.45:
            for _ in range(rng.randrange(1, 3)):
                muts.append({"op": "delete", "agent": rng.choice(imported), "k": rng.randrange(1, ncfg + 1)})
        elif imported and m < 0.55:
            muts.append({"op": "drop_agent", "agent": rng.choice(imported)})
        elif imported and m < 0.67:
            # a whole epoch lost: no imported agent has a row there (a truncated or coarser importer file)
            k = rng.randrange(1, ncfg + 1)
            for a in imported:
                muts.append({"op": "delete", "agent": a, "k": k})
        if rng.random() < 0.5:
            muts.append({"op": "add_agents", "n": rng.choice([1, 2, 5, 20])})
        if imported and rng.random() < 0.25:
            muts.append({"op": "dup", "agent": rng.choice(imported), "k": rng.randrange(1, ncfg + 1)})
        if rng.random() < 0.3:
            muts.append({"op": "shuffle", "how": rng.choice(["reverse", "interleave"])})
        if sids and rng.random() < 0.15:
            # the importer's ephemeris of a sensor lies a few km from where its stored observations were taken: the stored observation stays what it is
            muts.append({"op": "shift_sensor", "agent": rng.choice(sids), "d": [rng.uniform(-3, 3) for _ in range(3)]})
        rt_obs = rng.random() < 0.6
        if rng.random() < 0.2:
            muts.append({"op": "drop_observations"})
        rng.shuffle(muts)
        # importer file produced under another engine layout: phase 2 runs with the target lists of the two engines swapped, so the stored
        # observations pair a sensor of one engine with a target of the other
        relayout = len(cfg["engines"]) == 2 and rng.random() < 0.5
        return {"relayout": relayout, "config": cfg, "plan": [{"seconds": ncfg * step}], "schedule": {"name": "seeded", "seed": rng.randrange(2**31)}, "job_seed": rng.randrange(2**31),
                "mix": mix, "realtime_observation": rt_obs, "mutations": muts, "enumerate_cells": tier == "thorough" and rng.random() < 0.3}

    def sample_view(self, case):
        return {"time": case["config"]["time"], "mix": case["mix"], "importer_from_other_engine_layout": bool(case.get("relayout")), "realtime_observation": case["realtime_observation"], "mutations": case["mutations"],
                "agents": {"targets": sorted({t["id"] for e in case["config"]["engines"] for t in e["targets"]}),
                           "sensors": sorted({s["id"] for e in case["config"]["engines"] for s in e["sensors"]})}}

    # ------------------------------------------------------------------------------------------
    def run(self, case: dict) -> dict:
        res = result_template()
        viol, cnt = res["violations"], res["counters"]
        res["key"] = jdigest([case["config"], case["mix"], case["realtime_observation"], case["mutations"], case.get("relayout")])
        S, step, out, ncfg = time_info(case)
        base_dir = os.path.join(scratch_dir(), f"c19-{os.getpid()}")
        os.makedirs(os.path.join(base_dir, "p1"), exist_ok=True)
        try:
            c1 = dict(case)
            c1["_dir"] = os.path.join(base_dir, "p1")
            ctx1 = drive(c1)
            if ctx1.error is not None:
                if raised_in_harness(ctx1.error):
                    raise ctx1.error
                res["skipped"] = f"phase1-aborted:{type(ctx1.error).__name__}"
                return res
            src = ctx1.db_path
            variants = [case["mutations"]]
            if case.get("enumerate_cells"):
                imported0 = self._imported_ids(case)
                for aid in imported0:
                    for k in range(1, ncfg + 1):
                        variants.append([{"op": "delete", "agent": aid, "k": k}, {"op": "add_agents", "n": 3}])
                cnt["cases_with_every_gap_cell_enumerated"] = 1
            digests = []
            for vi, muts in enumerate(variants):
                self._phase2(case, muts, src, os.path.join(base_dir, f"p2-{vi}"), viol, cnt, res, digests)
                if viol:
                    break
            res["sim_seconds"] = float(ncfg * step * (1 + len(variants)))
            res["digest"] = jdigest([digests, viol])
        finally:
            shutil.rmtree(base_dir, ignore_errors=True)
        return res

    def _imported_ids(self, case):
        tids = sorted({t["id"] for e in case["config"]["engines"] for t in e["targets"]})
        sids = sorted({s["id"] for e in case["config"]["engines"] for s in e["sensors"]})
        return (tids if case["mix"] in ("targets", "both") else []) + (sids if case["mix"] in ("sensors", "both") else [])

    def _phase2(self, case, muts, src, workdir, viol, cnt, res, digests):  # noqa: C901, PLR0912
        S, step, out, ncfg = time_info(case)
        os.makedirs(workdir, exist_ok=True)
        imp_path = os.path.join(workdir, "importer.sqlite3")
        info = importer.build(src, imp_path, muts)
        for mt in muts:
            res["faults"][f"importer_{mt['op']}"] = res["faults"].get(f"importer_{mt['op']}", 0) + 1
        cfg2 = {**case["config"]}
        cfg2["propagation"] = dict(cfg2["propagation"], target_realtime_propagation=case["mix"] not in ("targets", "both"),
                                   sensor_realtime_propagation=case["mix"] not in ("sensors", "both"))
        cfg2["observation"] = dict(cfg2["observation"], realtime_observation=case["realtime_observation"])
        if case.get("relayout") and len(cfg2["engines"]) == 2:
            e0, e1 = cfg2["engines"]
            cfg2["engines"] = [dict(e0, targets=e1["targets"]), dict(e1, targets=e0["targets"])]
            cnt["importer_from_other_engine_layout"] = cnt.get("importer_from_other_engine_layout", 0) + 1
        c2 = dict(case)
        c2["config"] = cfg2
        c2["_dir"] = workdir
        c2["importer_db_url"] = f"sqlite:///{imp_path}"
        ctx = drive(c2)
        try:
            if ctx.error is not None and raised_in_harness(ctx.error):
                raise ctx.error
            imported = self._imported_ids(case)
            eps = info["epochs"]
            iso_to_jd = {iso: jd for jd, iso in eps}
            # first step at which some registered agent has no row
            first_gap = None
            for k in range(1, ncfg + 1):
                jd = eps[k][0] if k < len(eps) else None
                have = info["present"].get(jd, set())
                missing = [a for a in imported if a not in have]
                if missing:
                    first_gap = (k, missing)
                    break
            err_name = type(ctx.error).__name__ if ctx.error is not None else None
            died_step = probes.STATE["step"] if ctx.error is not None else None
            if err_name == "LinAlgError" and first_gap is not None and died_step < first_gap[0]:
                # the filter's covariance lost positive definiteness in an earlier step (a numerical abort): the run never got to the gap,
                # nothing can be said about it (within a step ephemerides are imported before the filters predict, so a gap in the same step comes first)
                cnt["numerical_abort_before_the_gap"] = cnt.get("numerical_abort_before_the_gap", 0) + 1
                first_gap = None
            snaps = {sn["k"]: sn for sn in probes.of_kind("snap")}
            if err_name not in (None, "MissingEphemerisError", "LinAlgError") and (first_gap is None or died_step < first_gap[0] or died_step > first_gap[0]):
                viol.append({"clause": "importing-run-aborted", "key": err_name,
                             "detail": f"the importing run aborted in step {died_step} with {err_name}: {str(ctx.error)[:200]} (first importer gap: {first_gap}); mutations {muts}"})
            elif first_gap:
                cnt["importer_gap_hit"] = cnt.get("importer_gap_hit", 0) + 1
                k, missing = first_gap
                if err_name != "MissingEphemerisError":
                    stale = ""
                    if k in snaps:
                        a = missing[0]
                        cur = snaps[k]["targets"].get(a, snaps[k]["sensors"].get(a))
                        prev = snaps[k - 1]["targets"].get(a, snaps[k - 1]["sensors"].get(a)) if (k - 1) in snaps else None
                        if cur is not None and prev is not None and np.array_equal(cur, prev):
                            stale = f"; agent {a} silently kept its state of step {k - 1}"
                    viol.append({"clause": "missing-ephemeris-not-reported", "key": "superset" if any(m["op"] == "add_agents" for m in muts) else "plain",
                                 "detail": f"importer has no row for registered agents {missing} at step {k} ({len(info['present'].get(eps[k][0], set()))} rows for other agents exist) "
                                           f"but the run {'raised ' + err_name if err_name else 'continued without error'}{stale}; mutations {muts}"})
                elif died_step != k:
                    viol.append({"clause": "missing-ephemeris-wrong-step", "key": "step", "detail": f"first gap is at step {k} for agents {missing} but MissingEphemerisError was raised in step {died_step}"})
                elif max(snaps, default=0) >= k:
                    viol.append({"clause": "ran-after-missing-ephemeris", "key": "step", "detail": f"step {k} completed although agents {missing} have no ephemeris"})
            elif err_name == "MissingEphemerisError":
                viol.append({"clause": "spurious-missing-ephemeris", "key": "complete-importer",
                             "detail": f"every registered agent {imported} has a row at every epoch, but step {died_step} raised MissingEphemerisError: {ctx.error}; mutations {muts}"})
            elif err_name is not None:
                cnt[f"aborted_{err_name}"] = cnt.get(f"aborted_{err_name}", 0) + 1
            # imported states equal the importer rows
            last_ok = (first_gap[0] - 1) if first_gap else max(snaps, default=0)
            n_cmp = 0
            for k in range(1, last_ok + 1):
                sn = snaps.get(k)
                if sn is None or k >= len(eps):
                    continue
                jd = eps[k][0]
                for a in imported:
                    cur = sn["targets"].get(a, sn["sensors"].get(a))
                    rows = info["rows"].get((jd, a))
                    if cur is None or not rows:
                        continue
                    n_cmp += 1
                    if hexes(cur) not in rows:
                        viol.append({"clause": "imported-state-differs", "key": "state", "detail": f"agent {a} at step {k}: state in the scenario is not the importer row for that agent and epoch"})
                        break
                    t = sn["target_time"].get(a, sn["sensor_time"].get(a))
                    if abs(t - k * step) > 1e-3:
                        viol.append({"clause": "imported-time-differs", "key": "time", "detail": f"agent {a} at step {k}: agent time {t!r} after import, epoch is {k * step}"})
                        break
                    if a in sn.get("sensor_lla", {}):
                        # what the sensor reports as its Earth-fixed location belongs to the imported state at this epoch
                        from resonaate.physics.transforms.methods import ecef2lla, eci2ecef

                        want = ecef2lla(eci2ecef(np.asarray(cur, dtype=float), S + __import__("datetime").timedelta(seconds=k * step)))
                        got = np.asarray(sn["sensor_lla"][a], dtype=float)
                        # compared as points (longitude is ill-conditioned next to the poles).  The agent's epoch comes back from a Julian date (up to
                        # ~4e-5 s), and when that puts it a few microseconds before midnight the Earth-orientation parameters of the previous day apply:
                        # UT1-UTC moves 1-3 ms per day, up to 1.4 m at the equator.  A location that lags one step is off by step x 465 m x cos(latitude)
                        from ..oracles import geom as _geom

                        dist = float(np.linalg.norm(_geom.lla_to_ecef(got[0], got[1], got[2]) - _geom.lla_to_ecef(want[0], want[1], want[2])))
                        # (an angle, so the allowance grows with the distance from the axis: 5e-7 rad is 3 m on the ground, 21 m for a sensor in GEO)
                        if dist > 5e-7 * max(float(np.linalg.norm(_geom.lla_to_ecef(want[0], want[1], want[2]))), 6378.0):
                            viol.append({"clause": "imported-sensor-location-stale", "key": "lla",
                                         "detail": f"sensor {a} at step {k}: reports latitude/longitude/altitude {got.tolist()} but its imported state at this epoch is at {want.tolist()}"})
                            break
                        cnt["imported_sensor_locations_compared"] = cnt.get("imported_sensor_locations_compared", 0) + 1
            cnt["imported_states_compared"] = cnt.get("imported_states_compared", 0) + n_cmp
            # imported observations reach the filter of their target at their epoch
            n_obs_cmp = 0
            if not cfg2["propagation"]["truth_simulation_only"]:
                upd = {}
                for r in probes.of_kind("update_obs"):
                    upd.setdefault((r["step"], r["target"]), []).extend(r["obs"])
                jobs = {}
                for r in probes.of_kind("task_result"):
                    jobs.setdefault(r["step"], []).extend(r["obs"])
                tracked = {k: set(sn.get("estimates", {})) for k, sn in snaps.items()}
                for k in range(1, last_ok + 1):
                    if k not in snaps or k >= len(eps):
                        continue
                    jd = eps[k][0]
                    want = {}
                    seen = set()
                    for o in info["observations"]:
                        if o[0] != jd:
                            continue
                        key = (int(o[7] * 1_000_000), int(o[8] * 1_000_000), int(o[9] * 1_000_000), o[2])
                        if key in seen:
                            continue
                        seen.add(key)
                        want.setdefault(o[2], []).append((float(o[0]).hex(), o[1], o[2], sched.hx(o[3]), sched.hx(o[4]), sched.hx(o[5]), sched.hx(o[6]),
                                                          float(o[7]).hex(), float(o[8]).hex(), float(o[9]).hex()))
                    for tid in tracked.get(k, ()):
                        got = sorted(upd.get((k, tid), []))
                        realtime = sorted(o for o in jobs.get(k, []) if o[2] == tid)
                        # imported ones are compared with the stored sensor position, realtime ones without (multiset matching)
                        pool = list(want.get(tid, []))
                        matched, rest = [], []
                        for g in got:
                            if g in pool:
                                pool.remove(g)
                                matched.append(g)
                            else:
                                rest.append(g)
                        # an imported observation delivered with another position stays a 10-tuple and will not match; the others are realtime
                        keep = []
                        for g in rest:
                            if any(g[:7] == w[:7] for w in pool):
                                pool = [w for w in pool if w[:7] != g[:7]] + [w for w in pool if w[:7] == g[:7]][1:]
                                keep.append(g)
                            else:
                                keep.append(g[:7])
                        got = sorted(matched + keep, key=repr)
                        exp = sorted(want.get(tid, []) + realtime, key=repr)
                        n_obs_cmp += 1
                        if got != exp:
                            viol.append({"clause": "imported-observations-not-delivered", "key": "update",
                                         "detail": f"step {k} target {tid}: filter update received {len(got)} observations, expected {len(want.get(tid, []))} imported + {len(realtime)} realtime; "
                                                   f"got {[(o[1], o[2], o[3][:12]) for o in got]} expected {[(o[1], o[2], o[3][:12]) for o in exp]}"})
                            break
                    for tid in want:
                        if tid not in tracked.get(k, ()):
                            cnt["imported_obs_for_untracked_target"] = cnt.get("imported_obs_for_untracked_target", 0) + 1
            cnt["imported_observation_sets_compared"] = cnt.get("imported_observation_sets_compared", 0) + n_obs_cmp
            # the importer file is untouched
            side = [f for f in os.listdir(workdir) if f.startswith("importer.sqlite3") and f != "importer.sqlite3"]
            if importer.sha256(imp_path) != info["sha256"] or side:
                viol.append({"clause": "importer-modified", "key": "file", "detail": f"importer file changed during the run (sha256 differs: {importer.sha256(imp_path) != info['sha256']}, side files {side})"})
            if imported and (n_cmp or first_gap):
                res["nontrivial"] = True
            cnt[f"mix_{case['mix']}"] = cnt.get(f"mix_{case['mix']}", 0) + 1
            if not case["realtime_observation"]:
                cnt["imported_observations_only"] = cnt.get("imported_observations_only", 0) + 1
            digests.append(jdigest([err_name, died_step, n_cmp, n_obs_cmp]))
        finally:
            cleanup(ctx)

    def shrink_candidates(self, case, violation):
        for i in range(len(case["mutations"])):
            yield variant(case, f"drop-mutation-{i}", lambda c, i=i: c["mutations"].pop(i))
        if case.get("enumerate_cells"):
            yield variant(case, "no-enumeration", lambda c: c.__setitem__("enumerate_cells", False))
        for c in generic_shrinks(case):
            if c.get("_shrunk_by", "").startswith("steps="):
                n = int(c["_shrunk_by"].split("=")[1])
                c["config"]["time"]["stop_timestamp"] = __import__("rsim.run", fromlist=["fmt_ts"]).fmt_ts(time_info(case)[0] + __import__("datetime").timedelta(seconds=n * time_info(case)[1]))
                c["mutations"] = [m for m in c["mutations"] if m.get("k", 0) <= n]
            yield c
        cfg = case["config"]
        used = {m.get("agent") for m in case["mutations"]}
        for ei, e in enumerate(cfg["engines"]):
            if len(e["targets"]) > 1:
                for t in e["targets"]:
                    if t["id"] not in used:
                        yield variant(case, f"drop-target-{t['id']}", lambda c, ei=ei, tid=t["id"]: c["config"]["engines"][ei].__setitem__("targets", [x for x in c["config"]["engines"][ei]["targets"] if x["id"] != tid]))
            if len(e["sensors"]) > 1:
                for s in e["sensors"]:
                    if s["id"] not in used:
                        yield variant(case, f"drop-sensor-{s['id']}", lambda c, ei=ei, sid=s["id"]: c["config"]["engines"][ei].__setitem__("sensors", [x for x in c["config"]["engines"][ei]["sensors"] if x["id"] != sid]))


CHECK = C19()
