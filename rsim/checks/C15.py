"""C15 - finite burns thrust for exactly their configured interval.

Truth-only runs under special perturbations (the only model that implements thrust) with one
finite burn (ECI / NTW) or finite maneuver (spiral / plane change) whose start and end are drawn
relative to the step grid: inside one step, spanning several, starting and/or ending exactly on a
boundary, at the scenario start.  Reference: the harness integrates piecewise over [t0, start],
[start, end], [end, tN] with SciPy DOP853 (rtol 1e-12), base acceleration = the repo's perturbed
derivative *without* thrust (trusted, C13), thrust = rsim's own ECI / NTW / spiral / plane-change
formulas switched on only inside the interval.
"""

from __future__ import annotations

import datetime as dt
import pickle
import random

import numpy as np
from scipy.integrate import solve_ivp

from .. import gen, probes, simray
from ..core import Check, jdigest, result_template
from ..oracles import kepler
from ..run import cleanup, fmt_ts, history_digest, parse_ts
from .C03 import limits
from .common import drive, generic_shrinks, over, raised_in_harness, time_info, variant


def thrust_acc(ev: dict, x: np.ndarray) -> np.ndarray:
    """rsim's own thrust model (km/s^2, ECI)."""
    if ev["event_type"] == "finite_burn":
        a = np.array(ev["acc_vector"], dtype=float)
        return a if ev["thrust_frame"] == "eci" else kepler.ntw_to_eci_matrix(x) @ a
    mag = float(ev["maneuver_mag"])
    M = kepler.ntw_to_eci_matrix(x)
    if ev["maneuver_type"] == "spiral":
        return M @ np.array([0.0, mag, 0.0])        # along the velocity
    return M @ np.array([0.0, 0.0, mag if x[2] >= 0 else -mag])   # plane change: along +-orbit normal by hemisphere


class C15(Check):
    pid = "C15"
    level = "exploration"
    quick_budget_s = 75.0
    thorough_budget_s = 1200.0
    per_run_timeout_s = 25.0
    rule = ("case = truth-only special-perturbations scenario with one finite burn/maneuver (40 %: a second one on the same target, back to back / after a pause / steps later) whose [start, end] is placed relative to the step grid "
            "(inside a step, spanning steps, on boundaries, at the scenario start); non-trivial = the burn interval intersects the simulated span; "
            "distinct = digest of (time block, event, force model)")
    assumptions = [
        "the repo's perturbed derivative without thrust is trusted as the base acceleration (C13)",
        "reference integration: SciPy DOP853, rtol 1e-12, split at the burn start and end so no event detection is needed",
        "tolerance = 10 * rtol(1e-10) * |y| * span/5 s per epoch (the repo integrator's own accuracy); a burn that runs 1 s too long at 1e-6 km/s^2 shifts the next epoch by > 100x that",
        "two-body truth ignores finite thrust altogether; outside this property's quantifier and not judged",
    ]
    real_components = ["ScheduledFiniteBurn/ManeuverEvent.handleEvent", "agent event queue + pruning", "Celestial.propagate event loop", "ScheduledFiniteThrust event function / callback",
                       "SpecialPerturbations derivative incl. thrust", "Scenario stepping"]
    stub_components = ["ray (rsim.simray)"]

    def setup(self, tier):
        probes.install_step_recorder()

    def gen(self, rng: random.Random, tier: str, index: int) -> dict:
        step = rng.choice([30, 60, 60, 120, 300, 600]) if rng.random() < 0.75 else rng.randrange(2, 901)
        n = rng.randrange(2, 7)
        if rng.random() < 0.15:
            n = rng.randrange(7, 31)      # how a boundary time rounds through Julian dates depends on the elapsed seconds: vary them widely
        start = gen.draw_start(rng, gen.EOP_FIRST, gen.EOP_LAST - dt.timedelta(days=2), whole_minute_p=0.3)
        orb = gen.draw_orbit(rng, rng.choice(["leo", "meo", "geo", "heo"]), emax=0.5)
        equatorial = rng.random() < 0.1
        if equatorial:
            # exactly in the equatorial plane (z = vz = 0): the hemisphere rule of the plane-change thrust sits on its boundary for the whole burn
            r0 = float(np.linalg.norm(orb["pos"]))
            ang0 = rng.uniform(0, 2 * np.pi)
            orb = {"pos": [r0 * np.cos(ang0), r0 * np.sin(ang0), 0.0], "vel": [-np.sqrt(kepler.MU / r0) * np.sin(ang0), np.sqrt(kepler.MU / r0) * np.cos(ang0), 0.0]}
        tgt = gen.eci_target(10001, orb["pos"], orb["vel"])
        lat, lon, alt = gen.draw_site(rng)
        sensor = gen.ground_sensor(90001, lat, lon, alt, gen.sensor_block("optical"))
        mode = rng.random()
        total = step * n
        if mode < 0.2:          # inside one step
            k = rng.randrange(0, n)
            a, b = sorted(rng.sample(range(1, step), 2)) if step > 2 else (1, 1)
            ts, te = k * step + a, k * step + max(b, a + 1)
        elif mode < 0.4:        # boundary to boundary
            k1 = rng.randrange(0, n)
            k2 = rng.randrange(k1 + 1, n + 1)
            ts, te = k1 * step, k2 * step
        elif mode < 0.6:        # starts on a boundary, ends inside a step
            k1 = rng.randrange(0, n)
            ts = k1 * step
            te = ts + rng.randrange(1, total - ts + step)
        elif mode < 0.8:        # starts inside, ends on a boundary
            k2 = rng.randrange(1, n + 1)
            te = k2 * step
            ts = rng.randrange(0, te)
        else:                   # arbitrary
            ts = rng.uniform(0, total - 1)
            te = ts + rng.uniform(0.5, total)
        if rng.random() < 0.15:
            ts, te = ts + rng.choice([1e-6, -1e-6, 0.5]), te + rng.choice([1e-6, -1e-6, 0.25])
        ts = max(ts, 0.0)
        te = max(te, ts + 0.25)
        S = start
        if rng.random() < 0.7:
            ev = {"scope": "agent_propagation", "scope_instance_id": 10001, "event_type": "finite_burn", "acc_vector": [rng.uniform(-1, 1) * 10 ** rng.uniform(-7, -5) for _ in range(3)],
                  "thrust_frame": rng.choice(["eci", "ntw"]), "planned": False}
        else:
            ev = {"scope": "agent_propagation", "scope_instance_id": 10001, "event_type": "finite_maneuver", "maneuver_mag": rng.choice([1, -1]) * 10 ** rng.uniform(-7, -5),
                  "maneuver_type": rng.choice(["spiral", "plane_change"]), "planned": False}
        ev["start_time"] = fmt_ts(S + dt.timedelta(seconds=ts))
        ev["end_time"] = fmt_ts(S + dt.timedelta(seconds=te))
        evs = [ev]
        if rng.random() < 0.4:
            # a second thrust on the same target after the first: back to back, after a short pause inside the same step, or steps later
            gap = rng.choice([0.0, 0.0, 0.0, float(rng.randrange(1, step)), float(rng.randrange(1, step)), float(step * rng.randrange(1, 3)), rng.uniform(0.25, 2 * step)])
            ts2 = round(te + gap, 6)
            dur = rng.choice([float(rng.randrange(1, step)), float(step), float(rng.randrange(1, 3 * step)), rng.uniform(0.5, 2 * step)])
            if rng.random() < 0.3:
                dur = max(0.5, (int(ts2 // step) + rng.randrange(1, 3)) * step - ts2)      # ends exactly on a boundary
            te2 = round(ts2 + dur, 6)
            if rng.random() < 0.7:
                ev2 = {"scope": "agent_propagation", "scope_instance_id": 10001, "event_type": "finite_burn", "acc_vector": [rng.uniform(-1, 1) * 10 ** rng.uniform(-7, -5) for _ in range(3)],
                       "thrust_frame": rng.choice(["eci", "ntw"]), "planned": False}
            else:
                ev2 = {"scope": "agent_propagation", "scope_instance_id": 10001, "event_type": "finite_maneuver", "maneuver_mag": rng.choice([1, -1]) * 10 ** rng.uniform(-7, -5),
                       "maneuver_type": rng.choice(["spiral", "plane_change"]), "planned": False}
            ev2["start_time"] = fmt_ts(S + dt.timedelta(seconds=ts2))
            ev2["end_time"] = fmt_ts(S + dt.timedelta(seconds=te2))
            if (parse_ts(ev2["start_time"]) - parse_ts(ev["end_time"])).total_seconds() >= 0:
                evs.append(ev2)
        if rng.random() < 0.25:
            # an impulsive maneuver of the same target around the thrust: inside the interval, exactly where it starts or ends, in the same step, or elsewhere
            s1, e1 = (parse_ts(evs[-1]["start_time"]) - S).total_seconds(), (parse_ts(evs[-1]["end_time"]) - S).total_seconds()
            t_imp = rng.choice([s1, e1, (s1 + e1) / 2, s1 + rng.uniform(0, max(e1 - s1, 0.5)), max(0.5, s1 - rng.uniform(0.5, step)), e1 + rng.uniform(0.5, step), rng.uniform(0.5, total)])
            t_imp = round(max(0.25, t_imp), 6)
            dvv = np.array([rng.gauss(0, 1) for _ in range(3)])
            dvv = (dvv / np.linalg.norm(dvv) * 10 ** rng.uniform(-4, -2)).tolist()
            evs.append({"scope": "agent_propagation", "scope_instance_id": 10001, "event_type": "impulse", "start_time": fmt_ts(S + dt.timedelta(seconds=t_imp)),
                        "thrust_vector": dvv, "thrust_frame": rng.choice(["eci", "ntw"]), "planned": False})
        geop = {"model": "egm96.txt", "degree": rng.choice([0, 2, 4]), "order": rng.choice([0, 0, 2])}
        geop["order"] = min(geop["order"], geop["degree"])
        pert3 = rng.choice([[], [], ["moon"], ["sun", "moon"]])
        if equatorial and rng.random() < 0.7:
            geop.update({"degree": 0, "order": 0})      # nothing but the thrust leaves the plane
            pert3 = []
            # (only the side that pushes away from the plane: thrust towards it flips sign every time the plane is crossed - a sliding mode no
            #  integrator gets through, the reference included)
            if evs[0]["event_type"] == "finite_maneuver" and evs[0].get("maneuver_type") == "plane_change":
                evs[0]["maneuver_mag"] = abs(evs[0]["maneuver_mag"])
            if evs[0]["event_type"] != "finite_maneuver" or evs[0].get("maneuver_type") != "plane_change":
                evs[0] = {"scope": "agent_propagation", "scope_instance_id": 10001, "event_type": "finite_maneuver", "maneuver_mag": 10 ** rng.uniform(-7, -5),
                          "maneuver_type": "plane_change", "planned": False, "start_time": evs[0]["start_time"], "end_time": evs[0]["end_time"]}
        if equatorial:
            for e3 in evs:
                if e3.get("maneuver_type") == "plane_change":
                    e3["maneuver_mag"] = abs(e3["maneuver_mag"])
        cfg = gen.base_config(start, step, n, [gen.engine_block(1, [sensor], [tgt])], model="special_perturbations", integrator=rng.choice(["RK45", "DOP853"]),
                              truth_only=True, seed=1, geopotential=geop, events=evs,
                              perturbations={"third_bodies": pert3, "solar_radiation_pressure": False, "general_relativity": False})
        ncalls = rng.choice([1, 1, 2])
        plan = [{"seconds": total}] if ncalls == 1 else [{"seconds": step * rng.randrange(1, n)}, {"seconds": total}]
        return {"config": cfg, "plan": plan, "schedule": {"name": "seeded", "seed": rng.randrange(2**31), "retry_rate": rng.choice([0.0, 0.0, 0.3])}, "job_seed": 1}

    def sample_view(self, case):
        S = parse_ts(case["config"]["time"]["start_timestamp"])
        return {"time": case["config"]["time"], "plan": case["plan"],
                "events": [{k: v for k, v in ev.items() if k not in ("scope", "scope_instance_id", "planned")} for ev in case["config"]["events"]],
                "burn_seconds_after_start": [[(parse_ts(ev["start_time"]) - S).total_seconds(), (parse_ts(ev.get("end_time", ev["start_time"])) - S).total_seconds()] for ev in case["config"]["events"]],
                "integrator": case["config"]["propagation"]["integration_method"], "geopotential": case["config"]["geopotential"]}

    def run(self, case: dict) -> dict:
        res = result_template()
        viol, cnt = res["violations"], res["counters"]
        cfg = case["config"]
        res["key"] = jdigest([cfg["time"], cfg["events"], cfg["geopotential"], cfg["perturbations"], cfg["propagation"]["integration_method"]])
        S, step, out, n = time_info(case)
        burns = sorted(((parse_ts(e["start_time"]) - S).total_seconds(), (parse_ts(e["end_time"]) - S).total_seconds(), e) for e in cfg["events"] if e["event_type"] != "impulse")
        impulses = sorted(((parse_ts(e["start_time"]) - S).total_seconds(), e) for e in cfg["events"] if e["event_type"] == "impulse")
        ts, te, ev = burns[0]
        ctx = drive(case)
        try:
            if ctx.error is not None:
                if raised_in_harness(ctx.error):
                    raise ctx.error
                cnt["aborted_" + type(ctx.error).__name__] = 1
            snaps = {sn["k"]: sn for sn in probes.of_kind("snap")}
            if ctx.app is None or not snaps:
                res["skipped"] = "no-steps"
                return res
            nrun = max(snaps)
            x0 = np.array(cfg["engines"][0]["targets"][0]["state"]["position"] + cfg["engines"][0]["targets"][0]["state"]["velocity"], dtype=float)
            dyn = pickle.loads(pickle.dumps(ctx.app.target_agents[10001].dynamics))
            dyn.finite_thrust = None

            def rhs(t, y, on):
                d = dyn._differentialEquation(t, y, check_collision=False)  # noqa: SLF001
                if on is not None:
                    d = d.copy()
                    d[3:] += thrust_acc(on, y)
                return d

            # piecewise reference over the breakpoints
            t_end = nrun * step
            cuts = sorted({0.0, t_end, *(float(k * step) for k in range(nrun + 1)), *(min(max(v, 0.0), t_end) for b3 in burns for v in b3[:2]),
                           *(ti for ti, _e in impulses if 0.0 < ti <= t_end)})
            # an impulse that coincides with a thrust boundary (or, to the resolution of Julian dates, with an epoch) can legitimately act just before or just after it: not judged
            fuzzy_imp = any(0 < abs(ti - v) < 1e-3 for ti, _e in impulses for b3 in burns for v in b3[:2]) or any(0 < abs(ti / step - round(ti / step)) * step < 1e-3 for ti, _e in impulses)
            if any(ti == v for ti, _e in impulses for b3 in burns for v in b3[:2]):
                cnt["impulse_exactly_on_a_thrust_boundary"] = 1
            ref = {0: x0}
            ref_before = {}
            x = x0.copy()
            for a, b in zip(cuts[:-1], cuts[1:]):
                if b <= a:
                    continue
                on = next((e3 for (s3, t3, e3) in burns if a >= s3 - 1e-9 and b <= t3 + 1e-9), None)
                sol = solve_ivp(rhs, (a, b), x, method="DOP853", rtol=1e-12, atol=1e-14, args=(on,))
                x = sol.y[:, -1]
                kk = round(b / step)
                on_epoch = abs(kk * step - b) < 1e-9
                for ti, e_imp in impulses:
                    if abs(ti - b) < 1e-9:       # the velocity changes at this instant
                        if on_epoch:
                            ref_before[kk] = x.copy()    # a record at this very epoch may or may not carry the delta-v yet (C01 accepts both)
                        dv_imp = np.array(e_imp["thrust_vector"], dtype=float)
                        x = x.copy()
                        x[3:] += dv_imp if e_imp["thrust_frame"] == "eci" else kepler.ntw_to_eci_matrix(x) @ dv_imp
                if on_epoch:
                    ref[kk] = x.copy()
            worst = 0.0
            if impulses:
                cnt["thrust_with_impulse_on_the_same_target"] = 1
                if any(s3 - 1e-9 <= ti <= t3 + 1e-9 for ti, _e in impulses for s3, t3, _e3 in burns):
                    cnt["impulse_inside_a_thrust_interval"] = 1
            for k in range(1, nrun + 1):
                if fuzzy_imp:
                    res["indeterminate"] += 1
                    break
                got = snaps[k]["targets"].get(10001)
                if got is None or k not in ref:
                    continue
                lp, lv = limits(k * step, got)
                dp, dv = float(np.linalg.norm(got[:3] - ref[k][:3])), float(np.linalg.norm(got[3:] - ref[k][3:]))
                if k in ref_before:
                    dp2, dv2 = float(np.linalg.norm(got[:3] - ref_before[k][:3])), float(np.linalg.norm(got[3:] - ref_before[k][3:]))
                    if max(dp2 / lp, dv2 / lv) < max(dp / lp, dv / lv):
                        dp, dv = dp2, dv2
                worst = max(worst, dp / lp, dv / lv)
                if over(dp, lp) or over(dv, lv):
                    # how long did the engine really burn?  (ECI burns: delta-v / |a|)
                    extra = ""
                    if len(burns) == 1 and ev["event_type"] == "finite_burn" and ev["thrust_frame"] == "eci":
                        a = np.array(ev["acc_vector"], dtype=float)
                        extra = f"; velocity excess along the thrust direction corresponds to {float((got[3:] - ref[k][3:]) @ a / (a @ a)):+.3f} s of extra thrust"
                    onb = abs(ts / step - round(ts / step)) < 1e-9, abs(te / step - round(te / step)) < 1e-9
                    key = ("start-on-boundary" if onb[0] else "start-inside") + "/" + ("end-on-boundary" if onb[1] else "end-inside") + ("/two-thrusts" if len(burns) > 1 else "")
                    viol.append({"clause": "burn-interval", "key": key,
                                 "detail": f"{' then '.join(f'{e3['event_type']} [{s3}s, {t3}s]' for s3, t3, e3 in burns)} (step {step}s): truth at t={k * step}s is {dp:.3e} km / {dv:.3e} km/s from the reference that thrusts only inside the interval "
                                           f"(limits {lp:.1e} / {lv:.1e}){extra}"})
                    break
            res["tolerances"]["truth_vs_reference_ratio_to_limit"] = [worst, 1.0]
            inside = ts < nrun * step and te > 0
            if len(burns) > 1:
                cnt["two_thrusts_on_one_target"] = 1
                if abs(burns[1][0] - burns[0][1]) < 1e-9:
                    cnt["second_thrust_starts_where_the_first_ends"] = 1
                if burns[1][0] < nrun * step and int(burns[1][0] // step) == int((burns[0][1] - 1e-9) // step):
                    cnt["second_thrust_starts_in_the_step_the_first_ends_in"] = 1
            res["nontrivial"] = inside
            cnt["steps"] = nrun
            cnt["burn_" + ev["event_type"] + "_" + ev.get("thrust_frame", ev.get("maneuver_type", ""))] = 1
            if abs(te / step - round(te / step)) > 1e-9 and te < nrun * step:
                cnt["burn_ends_inside_a_step"] = 1
            if abs(ts / step - round(ts / step)) < 1e-9:
                cnt["burn_starts_on_boundary"] = 1
            if ts == 0:
                cnt["burn_starts_at_scenario_start"] = 1
            if int(ts // step) == int((te - 1e-9) // step):
                cnt["burn_within_one_step"] = 1
            res["faults"]["task_retry"] = simray.STATE.stats["retries"]
            res["sim_seconds"] = float(nrun * step)
            res["digest"] = history_digest(ctx, viol)
        finally:
            cleanup(ctx)
        return res

    def shrink_candidates(self, case, violation):
        for c in generic_shrinks(case):
            if not c.get("_shrunk_by", "").startswith("drop-event"):
                yield c
        cfg = case["config"]
        if len(cfg["events"]) > 1:
            for i in range(len(cfg["events"])):
                if cfg["events"][i]["event_type"] == "impulse" or sum(e["event_type"] != "impulse" for e in cfg["events"]) > 1:
                    yield variant(case, f"drop-thrust-{i}", lambda c, i=i: c["config"]["events"].pop(i))
        if cfg["perturbations"]["third_bodies"]:
            yield variant(case, "no-third-bodies", lambda c: c["config"]["perturbations"].__setitem__("third_bodies", []))
        if cfg["geopotential"]["degree"]:
            yield variant(case, "degree-0", lambda c: c["config"]["geopotential"].update({"degree": 0, "order": 0}))
        ev = cfg["events"][0]
        if ev["event_type"] == "finite_maneuver" or ev.get("thrust_frame") == "ntw":
            def to_eci(c):
                e = c["config"]["events"][0]
                e.pop("maneuver_mag", None)
                e.pop("maneuver_type", None)
                e.update({"event_type": "finite_burn", "acc_vector": [1e-6, 0.0, 0.0], "thrust_frame": "eci"})
            yield variant(case, "eci-burn", to_eci)


CHECK = C15()
