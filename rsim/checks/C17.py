"""C17 - maneuver detectors compute their documented statistic over any history.

Full runs with each detector kind (standard / sliding-window / fading-memory NIS), drawn
thresholds, windows and fading factors, mixed optical (2-dim) / radar (4-dim) sensors and varying
numbers of simultaneous observations, and unplanned impulses so that real detections occur.
A reference detector (a few lines holding the list of (NIS, dim)) runs in lock-step on the
innovations and innovation covariances the filter hands to the real detector.
"""

from __future__ import annotations

import copy
import datetime as dt
import random

import numpy as np
from scipy.stats import chi2

from .. import gen, probes, simray
from ..core import Check, jdigest, result_template
from ..run import cleanup, fmt_ts, history_digest, read_db, wrap_method
from .common import drive, generic_shrinks, raised_in_harness, time_info, variant


def install_detector_probe():
    from resonaate.estimation.sequential_filter import SequentialFilter

    def before(self, *a, **k):
        if self.maneuver_detection is None:
            return None
        return copy.deepcopy(self.maneuver_detection)

    def after(self, tok, res, *a, **k):
        det = self.maneuver_detection
        if det is None:
            return
        inn, S = np.array(self.innovation, dtype=float), np.array(self.innov_cvr, dtype=float)
        mono = []
        if self.maneuver_detected and tok is not None:
            for scale in (2.0, 10.0):
                twin = copy.deepcopy(tok)
                mono.append((scale, bool(twin(inn * scale, S))))
        probes.rec("detect", target=self.target_id, cls=type(det).__name__, threshold=float(det.threshold), window=getattr(det, "window_size", None),
                   delta=getattr(det, "delta", None), innovation=inn, innov_cvr=S, flag=bool(self.maneuver_detected), metric=None if det.metric is None else float(det.metric),
                   monotone=mono, time=float(self.time))

    wrap_method(SequentialFilter, "checkManeuverDetection", before=before, after=after)


class RefDetector:
    """Documented statistics: NIS_k = nu' S^-1 nu; sliding = sum of the last w; fading: e_k = delta e_{k-1} + NIS_k, statistic (1+delta) e_k."""

    def __init__(self, cls, threshold, window, delta):
        self.cls, self.alpha, self.w, self.delta = cls, threshold, window, delta
        self.hist = []  # (nis, dim)
        self.fade = 0.0

    def step(self, inn, S):
        nis = float(inn @ np.linalg.solve(S, inn))
        dim = int(inn.shape[0])
        self.hist.append((nis, dim))
        if self.cls == "StandardNis":
            stat, dofs = nis, [dim]
        elif self.cls == "SlidingNis":
            win = self.hist[-self.w:]
            stat, dofs = sum(n for n, _ in win), [sum(d for _, d in win)]
        else:
            self.fade = self.delta * self.fade + nis
            stat = self.fade * (1 + self.delta)
            dims = [d for _, d in self.hist]
            f = (1 + self.delta) / (1 - self.delta)
            dofs = [np.mean(dims) * f]
            if len(set(dims)) > 1:
                # the documented n_z(1+delta)/(1-delta) does not say which n_z when it varies: also accept the
                # current dimension and the delta-weighted average of the dimensions
                wts = np.array([self.delta ** (len(dims) - 1 - i) for i in range(len(dims))])
                dofs += [dims[-1] * f, float(np.dot(wts, dims) / wts.sum()) * f]
        return stat, dofs, nis, dim


class C17(Check):
    pid = "C17"
    level = "exploration"
    quick_budget_s = 60.0
    thorough_budget_s = 900.0
    per_run_timeout_s = 300.0
    rule = ("case = full estimation run (co-located mixed optical/radar sensors, persistently visible targets, one detector configuration, optional unplanned impulses); "
            "plus 0-3 detector objects driven directly by the harness with drawn innovation histories; every detector call is judged in lock-step by the reference; non-trivial = >= 2 detector calls for some target; distinct = digest of the configuration")
    assumptions = [
        "scipy.stats.chi2.isf gives the chi-square bound; calls whose statistic is within 1e-9 relative of the bound are indeterminate",
        "fading-memory degrees of freedom with varying measurement dimension: average, current or delta-weighted dimension accepted (documentation only defines constant n_z)",
        "histories inside runs are <= 8 (quick) / <= 16 (thorough) steps; longer ones (<= 30 / <= 50 steps, dimension 1..8 varying, drawn covariances) are fed to detector objects by the harness playing the filter",
    ]
    real_components = ["ManeuverDetection subclasses", "SequentialFilter.checkManeuverDetection", "UKF update (innovation, innovation covariance)", "EstimateAgent maneuver bookkeeping", "detected_maneuvers table"]
    stub_components = ["ray (rsim.simray incl. task retry)"]

    def setup(self, tier):
        probes.install_step_recorder()
        install_detector_probe()

    def gen(self, rng: random.Random, tier: str, index: int) -> dict:
        step = rng.choice([60, 120, 300])
        nsteps = rng.randrange(4, 9 if tier == "quick" else 17)
        start = gen.draw_start(rng, gen.EOP_FIRST, gen.EOP_LAST)
        lat, lon, alt = rng.uniform(-60, 60), rng.uniform(-180, 180), rng.uniform(0, 2)
        sensors = []
        coarse = rng.random() < 0.5
        for i in range(rng.randrange(1, 4)):
            kind = rng.choice(["radar", "adv_radar", "optical", "optical"])
            blk = gen.sensor_block(kind, coarse=coarse, field_of_view={"fov_shape": "conic", "cone_angle": rng.choice([5.0, 30.0, 90.0])}, elevation_range=[0.5, 89.9999])
            if kind == "optical":
                blk["detectable_vismag"] = 30.0
            sensors.append(gen.ground_sensor(90001 + i, lat + rng.uniform(-0.02, 0.02), lon + rng.uniform(-0.02, 0.02), alt, blk))
        if rng.random() < 0.4:
            orb = gen.draw_orbit(rng, "geo")
            sensors.append(gen.space_sensor(60001, orb["pos"], orb["vel"], gen.sensor_block("optical", coarse=coarse, elevation_range=[-89.9, 89.9], detectable_vismag=30.0,
                                                                                              field_of_view={"fov_shape": "conic", "cone_angle": 60.0})))
        site = {"latitude": lat, "longitude": lon, "altitude": alt}
        targets = []
        for j in range(rng.randrange(1, 4)):
            k = rng.randrange(0, nsteps + 1)
            st = gen.place_over_site(rng, site, start + dt.timedelta(seconds=k * step), k * step, rng.uniform(0, 360), rng.uniform(25, 80), rng.uniform(36000, 40000), "corotate")
            targets.append(gen.eci_target(10001 + j, st[:3], st[3:]))
        kind = rng.choice(["standard_nis", "sliding_nis", "fading_memory_nis"])
        det = {"name": kind, "threshold": rng.choice([0.001, 0.01, 0.05, 0.2, 0.5, 0.9])}
        if kind == "sliding_nis":
            det["window_size"] = rng.randrange(1, 11)
        if kind == "fading_memory_nis":
            det["delta"] = rng.choice([0.1, 0.5, 0.8, 0.95])
        events = []
        for _ in range(rng.choice([0, 1, 1, 2])):
            events.append({"scope": "agent_propagation", "scope_instance_id": rng.choice(targets)["id"], "event_type": "impulse",
                           "start_time": fmt_ts(start + dt.timedelta(seconds=step * rng.randrange(1, nsteps) - rng.randrange(1, step))),
                           "thrust_vector": [rng.uniform(-1, 1) * 10 ** rng.uniform(-4, -2) for _ in range(3)], "thrust_frame": rng.choice(["eci", "ntw"]), "planned": False})
        dec = rng.choice(["MunkresDecision", "MyopicNaiveGreedyDecision", "RandomDecision"])
        cfg = gen.base_config(start, step, nsteps, [gen.engine_block(1, sensors, targets, dec, {"name": "SimpleSummationReward", "metrics": [{"name": "TimeSinceObservation"}]},
                                                                      {"seed": rng.randrange(1, 2**31)} if dec == "RandomDecision" else None)],
                              model="two_body", seed=rng.randrange(1, 2**31), background=True, events=events,
                              estimation=gen.estimation_block(dynamics="two_body", alpha=rng.choice([0.001, 0.05, 0.5]), maneuver_detection=det),
                              noise={"init_position_std_km": 1e-3 if not coarse else rng.choice([1e-3, 0.5]), "init_velocity_std_km_p_sec": 1e-6 if not coarse else 1e-5,
                                     "filter_noise_type": "continuous_white_noise", "filter_noise_magnitude": rng.choice([3e-14, 1e-10]), "random_seed": rng.randrange(1, 2**31)})
        # histories beyond what a short run produces: the harness plays the filter and feeds detector objects of every kind drawn innovation sequences
        direct = []
        for _ in range(rng.choice([0, 1, 2, 3])):
            kind2 = rng.choice(["StandardNis", "SlidingNis", "FadingMemoryNis"])
            direct.append({"cls": kind2, "threshold": rng.choice([0.001, 0.01, 0.05, 0.2, 0.5, 0.9, rng.uniform(0.0005, 0.999)]),
                           "window": rng.randrange(1, 11) if kind2 == "SlidingNis" else None, "delta": rng.choice([0.05, 0.3, 0.8, 0.95, rng.uniform(0.01, 0.99)]) if kind2 == "FadingMemoryNis" else None,
                           "length": rng.randrange(1, 51 if tier == "thorough" else 31), "dims": rng.choice(["fixed", "varying", "varying"]), "seed": rng.randrange(2**31),
                           "level": rng.choice([0.3, 1.0, 1.0, 3.0])})
        return {"config": cfg, "plan": [{"seconds": nsteps * step}], "schedule": {"name": "seeded", "seed": rng.randrange(2**31), "retry_rate": rng.choice([0.0, 0.0, 0.2])},
                "job_seed": rng.randrange(2**31), "direct": direct}

    def sample_view(self, case):
        c = case["config"]
        return {"time": c["time"], "detector": c["estimation"]["sequential_filter"]["maneuver_detection"], "sensors": [s["sensor"]["type"] for s in c["engines"][0]["sensors"]],
                "targets": len(c["engines"][0]["targets"]), "impulses": len(c.get("events", []))}

    def run(self, case: dict) -> dict:
        res = result_template()
        viol, cnt = res["violations"], res["counters"]
        res["key"] = jdigest(case["config"])
        S, step, out, ncfg = time_info(case)
        ctx = drive(case)
        try:
            if ctx.error is not None:
                if raised_in_harness(ctx.error):
                    raise ctx.error
                cnt["aborted_" + type(ctx.error).__name__] = 1
            if case.get("direct"):
                self._direct_phase(case["direct"])
            calls = {}
            for r in probes.of_kind("detect"):
                calls[(r["step"], r["target"])] = r      # a retried update job calls the detector again on a fresh copy: keep one per step
            refs = {}
            flags = {}
            per_target = {}
            for (k, tid) in sorted(calls):
                r = calls[(k, tid)]
                ref = refs.setdefault(tid, RefDetector(r["cls"], r["threshold"], r["window"], r["delta"]))
                stat, dofs, nis, dim = ref.step(r["innovation"], r["innov_cvr"])
                per_target[tid] = per_target.get(tid, 0) + 1
                cnt["detector_calls"] = cnt.get("detector_calls", 0) + 1
                if tid < 0:
                    cnt["detector_calls_driven_by_the_harness"] = cnt.get("detector_calls_driven_by_the_harness", 0) + 1
                    cnt["longest_history"] = max(cnt.get("longest_history", 0), len(ref.hist))
                cnt[f"calls_{r['cls']}"] = cnt.get(f"calls_{r['cls']}", 0) + 1
                if tid > 0:
                    # the detector built from the configuration is the configured one
                    conf = case["config"]["estimation"]["sequential_filter"]["maneuver_detection"]
                    want = ({"standard_nis": "StandardNis", "sliding_nis": "SlidingNis", "fading_memory_nis": "FadingMemoryNis"}[conf["name"]], conf["threshold"], conf.get("window_size"), conf.get("delta"))
                    got = (r["cls"], r["threshold"], r["window"] if conf.get("window_size") is not None else None, r["delta"] if conf.get("delta") is not None else None)
                    if got != want:
                        viol.append({"clause": "detector-differs-from-its-configuration", "key": conf["name"], "detail": f"configured {conf}, the filter of target {tid} runs {got}"})
                        break
                where = f"step {k} target {tid} {r['cls']}(threshold={r['threshold']}, window={r['window']}, delta={r['delta']}) history (NIS, dim)={[(round(n, 4), d) for n, d in ref.hist[-6:]]}"
                # the quadratic form inverts S: allow the rounding its conditioning amplifies
                rtol = max(1e-9, 100 * 2.3e-16 * float(np.linalg.cond(r["innov_cvr"]))) * max(1, len(ref.hist) if r["cls"] != "StandardNis" else 1)
                if r["flag"]:
                    flags[(k, tid)] = True       # what the detector said, judged or not: the stored rows must mirror it
                if rtol > 1e-4:
                    res["indeterminate"] += 1
                    continue
                if r["metric"] is None or not np.isclose(r["metric"], stat, rtol=rtol, atol=1e-12):
                    viol.append({"clause": "metric-not-documented-statistic", "key": r["cls"], "detail": f"{where}: detector reports metric {r['metric']!r}, documented statistic is {stat!r}"})
                    continue
                verdicts = set()
                for dof in dofs:
                    bound = float(chi2.isf(r["threshold"], dof))
                    if abs(stat - bound) <= 10 * rtol * max(1.0, abs(bound)):
                        verdicts.add(None)
                    else:
                        verdicts.add(stat >= bound)
                if None in verdicts:
                    res["indeterminate"] += 1
                elif r["flag"] not in verdicts:
                    viol.append({"clause": "detection-flag", "key": r["cls"],
                                 "detail": f"{where}: statistic {stat:.6g}, chi-square bound(s) {[round(float(chi2.isf(r['threshold'], d)), 6) for d in dofs]} for dof {[round(float(d), 4) for d in dofs]}: "
                                           f"detector says {'maneuver' if r['flag'] else 'no maneuver'}"})
                if len({d for _, d in ref.hist}) > 1:
                    cnt["calls_with_varying_dimension_history"] = cnt.get("calls_with_varying_dimension_history", 0) + 1
                if r["flag"]:
                    cnt["detections"] = cnt.get("detections", 0) + 1
                    flags[(k, tid)] = True
                    for scale, still in r["monotone"]:
                        cnt["monotonicity_probes"] = cnt.get("monotonicity_probes", 0) + 1
                        if not still:
                            viol.append({"clause": "not-monotone", "key": r["cls"], "detail": f"{where}: detection disappears when the latest innovation is scaled by {scale}"})
            # stored detected_maneuvers rows correspond to the flags
            if ctx.app is not None and ctx.error is None:
                rows = read_db(ctx.db_path, "select e.timestampISO, d.target_id, d.metric from detected_maneuvers d join epochs e on e.julian_date = d.julian_date")
                got = set()
                for iso, tid, _m in rows:
                    k = round((dt.datetime.fromisoformat(iso) - S).total_seconds() / step)
                    got.add((k, tid))
                if got != {kt for kt in flags if kt[1] > 0}:
                    viol.append({"clause": "detected-maneuver-rows", "key": "rows", "detail": f"detected_maneuvers rows at (step, target) {sorted(got)}, detector flags at {sorted(kt for kt in flags if kt[1] > 0)}"})
            res["nontrivial"] = any(v >= 2 for v in per_target.values())
            cnt["history_steps_total"] = sum(per_target.values())
            res["faults"]["task_retry"] = simray.STATE.stats["retries"]
            res["sim_seconds"] = float(ncfg * step)
            res["digest"] = history_digest(ctx, viol)
        finally:
            cleanup(ctx)
        return res

    @staticmethod
    def _direct_phase(direct):
        """The harness as filter: each drawn detector object is called once per step of a drawn history of innovations (dimension 1..8,
        positive-definite covariances of drawn conditioning) sized so that the statistic hovers around its bound."""
        from resonaate.estimation import maneuver_detection as md

        for di, d in enumerate(direct):
            rs = np.random.RandomState(d["seed"])
            if d["cls"] == "StandardNis":
                det = md.StandardNis(d["threshold"])
            elif d["cls"] == "SlidingNis":
                det = md.SlidingNis(d["threshold"], window_size=d["window"])
            else:
                det = md.FadingMemoryNis(d["threshold"], delta=d["delta"])
            dim = int(rs.randint(1, 9))
            for k in range(1, d["length"] + 1):
                if d["dims"] == "varying" and rs.rand() < 0.4:
                    dim = int(rs.randint(1, 9))
                A = rs.randn(dim, dim)
                Smat = A @ A.T + 10.0 ** rs.uniform(-6, 0) * np.eye(dim)
                Smat *= 10.0 ** rs.uniform(-8, 2)
                L = np.linalg.cholesky(Smat)
                z = rs.randn(dim)
                # |z|^2 ~ chi-square(dim); scale so that single-step NIS sits around its expected value times the drawn level (sometimes a jump)
                inn = L @ z * np.sqrt(d["level"] * (rs.choice([1.0, 1.0, 1.0, 4.0, 25.0])))
                twin = copy.deepcopy(det)
                flag = bool(det(inn, Smat))
                mono = []
                if flag:
                    for scale in (2.0, 10.0):
                        t2 = copy.deepcopy(twin)
                        mono.append((scale, bool(t2(inn * scale, Smat))))
                r = probes.rec("detect", target=-(di + 1), cls=d["cls"], threshold=float(det.threshold), window=getattr(det, "window_size", None), delta=getattr(det, "delta", None),
                               innovation=inn, innov_cvr=Smat, flag=flag, metric=None if det.metric is None else float(det.metric), monotone=mono, time=float(k))
                r["step"] = k

    def shrink_candidates(self, case, violation):
        yield from generic_shrinks(case)
        for i in range(len(case.get("direct") or [])):
            yield variant(case, f"drop-direct-{i}", lambda c, i=i: c["direct"].pop(i))
        for i, d in enumerate(case.get("direct") or []):
            if d["length"] > 1:
                yield variant(case, f"direct-{i}-half", lambda c, i=i: c["direct"][i].__setitem__("length", max(1, c["direct"][i]["length"] // 2)))
        e = case["config"]["engines"][0]
        used = {ev["scope_instance_id"] for ev in case["config"].get("events", [])}
        if len(e["targets"]) > 1:
            for t in e["targets"]:
                if t["id"] not in used:
                    yield variant(case, f"drop-target-{t['id']}", lambda c, tid=t["id"]: c["config"]["engines"][0].__setitem__("targets", [x for x in c["config"]["engines"][0]["targets"] if x["id"] != tid]))
        if len(e["sensors"]) > 1:
            for s in e["sensors"]:
                yield variant(case, f"drop-sensor-{s['id']}", lambda c, sid=s["id"]: c["config"]["engines"][0].__setitem__("sensors", [x for x in c["config"]["engines"][0]["sensors"] if x["id"] != sid]))


CHECK = C17()
