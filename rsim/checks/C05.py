"""C05 - calendar, Julian-date and scenario times agree; requested durations are honoured.

Workload: minimal truth-only scenarios driven through the same path as the CLI
(``getTargetJulianDate`` + ``propagateTo``), one or several consecutive calls.
Space sampled: start instant (whole second, 1901-2099, every second-of-minute, calendar edges) x
physics step x output step x requested durations (multiples of the step, +-1 s, fractional,
shorter than a step) x number of calls.
Oracle: exact integer arithmetic (rsim.oracles.exacttime).
"""

from __future__ import annotations

import copy
import datetime as dt
import random

from .. import gen
from ..core import Check, jdigest, result_template
from ..oracles import exacttime as xt
from ..run import RunContext, build, cleanup, fmt_ts, history_digest, parse_ts, read_db, wrap_method
from .common import over

STEPS = [2, 3, 5, 7, 10, 13, 30, 59, 60, 61, 90, 100, 120, 300, 450, 600, 900, 1800, 3600]
HI_2099 = dt.datetime(2099, 12, 31, 23, 59, 59)


class C05(Check):
    pid = "C05"
    level = "exploration"
    quick_budget_s = 50.0
    thorough_budget_s = 900.0
    per_run_timeout_s = 120.0
    rule = ("case = (start instant, physics step, output step, list of cumulative requested durations) drawn from the seed; "
            "non-trivial = at least one stepForward executed or a too-short duration had to be rejected; "
            "distinct = distinct digest of (start, step, output step, durations)")
    assumptions = [
        "python datetime / integer arithmetic is the calendar reference (no leap seconds, as in the repo)",
        "dates outside the bundled EOP table use synthetic zero EOP rows injected through setEarthOrientationParameters",
        "Julian dates are compared with the exact rational value at 1.5e-9 day (3 ulp)",
    ]
    real_components = ["resonaate Scenario/ScenarioClock/ScenarioBuilder", "stardate + time.conversions", "TwoBody propagation", "Terrestrial dynamics",
                       "SQLAlchemy + SQLite output database (file on tmpfs)", "KeyValueStore / EventStack logic"]
    stub_components = ["ray (rsim.simray: in-process tasks, object store and named actor)"]

    def setup(self, tier):
        from resonaate.scenario.scenario import Scenario

        def before(self_, *a, **k):
            c = getattr(self_, "_rsim_step_calls", 0)
            self_._rsim_step_calls = c + 1  # noqa: SLF001

        wrap_method(Scenario, "stepForward", before=before)

    # -- generation ---------------------------------------------------------------------------
    def gen(self, rng: random.Random, tier: str, index: int) -> dict:
        step = rng.choice(STEPS) if rng.random() < 0.8 else rng.randrange(2, 3601)
        out_mult = rng.choice([1, 1, 1, 2, 3])
        out_step = step * out_mult
        ncfg = rng.randrange(1, 9)
        long_run = tier == "thorough" and rng.random() < 0.1
        max_steps = 200 if long_run else 12
        # plan: cumulative durations
        ncalls = rng.choice([1, 1, 1, 2, 2, 3])
        plan = []
        t_steps = 0
        for _ in range(ncalls):
            k = rng.randrange(1, max(2, max_steps // ncalls + 1))
            t_steps += k
            mode = rng.random()
            d = t_steps * step
            if mode < 0.5:
                pass
            elif mode < 0.62:
                d += 1
            elif mode < 0.74:
                d -= 1
            elif mode < 0.86:
                d += rng.randrange(0, step)
            else:
                d += rng.randrange(0, step) + rng.choice([0.25, 0.5, 0.999999])
            plan.append({"seconds": d})
        if rng.random() < 0.08:
            # a request shorter than one step beyond the current time: must be rejected
            if rng.random() < 0.5:
                plan = [{"seconds": rng.randrange(0, step)}]
            else:
                done = int(plan[-1]["seconds"]) // step
                plan.append({"seconds": done * step + rng.randrange(0, step)})
        total = max(p["seconds"] for p in plan) + ncfg * step
        synth = rng.random() < 0.5
        if synth:
            lo, hi = dt.datetime(1901, 1, 2), HI_2099 - dt.timedelta(seconds=int(total) + 86400)
        else:
            lo, hi = gen.EOP_FIRST, gen.EOP_LAST - dt.timedelta(seconds=int(total) + 86400)
        start = gen.draw_start(rng, lo, hi, whole_minute_p=0.05)
        if synth and rng.random() < 0.2:
            # century / leap-rule corner years of the 1901-2099 domain
            y = rng.choice([2000, 2000, 1904, 2096, 1999, 2001, 1901, 2099, 2004])
            try:
                cand = start.replace(year=y)
                if lo <= cand <= hi:
                    start = cand
            except ValueError:
                pass
        orb = gen.draw_orbit(rng, rng.choice(["leo", "geo", "meo"]))
        lat, lon, alt = gen.draw_site(rng)
        sensor = gen.ground_sensor(90001, lat, lon, alt, gen.sensor_block("optical"))
        target = gen.eci_target(10001, orb["pos"], orb["vel"])
        cfg = gen.base_config(start, step, ncfg, [gen.engine_block(1, [sensor], [target])], out_step=out_step,
                              model="two_body", truth_only=True, seed=rng.randrange(1, 2**31))
        return {"config": cfg, "plan": plan, "eop_synth": synth, "eop_span_days": int(total // 86400) + 3,
                "schedule": {"name": "seeded", "seed": rng.randrange(2**31)}, "job_seed": rng.randrange(2**31), "tz": gen.draw_tz(rng)}

    def sample_view(self, case):
        t = case["config"]["time"]
        return {"machine_time_zone": case.get("tz", "UTC"), "start": t["start_timestamp"], "step": t["physics_step_sec"], "output_step": t["output_step_sec"],
                "configured_stop": t["stop_timestamp"], "requested_durations_s": [p["seconds"] for p in case["plan"]]}

    # -- execution + oracle -------------------------------------------------------------------
    def run(self, case: dict) -> dict:
        res = result_template()
        viol = res["violations"]
        cfg = case["config"]
        S = parse_ts(cfg["time"]["start_timestamp"])
        S_us = xt.to_us(S)
        step = int(cfg["time"]["physics_step_sec"])
        out_step = int(cfg["time"]["output_step_sec"])
        ncfg = round((parse_ts(cfg["time"]["stop_timestamp"]) - S).total_seconds() / step)
        res["key"] = jdigest([cfg["time"], case["plan"]])
        ctx = RunContext(case)
        try:
            build(case, ctx)
            app = ctx.app
            from resonaate.physics.time.conversions import getTargetJulianDate
            from resonaate.physics.time.stardate import JulianDate, ScenarioTime, datetimeToJulianDate, julianDateToDatetime

            # component start datetimes derived from the start Julian date
            for sid, sen in app.sensor_agents.items():
                d0 = getattr(sen.dynamics, "datetime_start", None)
                if d0 is not None and d0 != S:
                    viol.append({"clause": "component-start-datetime", "key": f"sec={S.second}",
                                 "detail": f"ground dynamics of agent {sid} starts at {d0.isoformat()} but scenario starts at {S.isoformat()}"})
            if app.clock.datetime_start != S:
                viol.append({"clause": "component-start-datetime", "key": "clock", "detail": f"clock starts at {app.clock.datetime_start}"})

            steps_done = 0
            rejected = 0
            for call_no, item in enumerate(case["plan"]):
                D = item["seconds"]
                D_us = int(round(D * 1_000_000))
                avail_us = D_us - steps_done * step * 1_000_000
                expect = avail_us // (step * 1_000_000)
                before = getattr(app, "_rsim_step_calls", 0)
                target = getTargetJulianDate(app.clock.julian_date_start, dt.timedelta(seconds=D))
                raised = None
                try:
                    app.propagateTo(target)
                except ValueError as exc:
                    raised = exc
                did = getattr(app, "_rsim_step_calls", 0) - before
                if expect < 1:
                    rejected += 1
                    if raised is None or did != 0:
                        viol.append({"clause": "short-duration-not-rejected", "key": f"D={D},step={step}",
                                     "detail": f"call {call_no}: requested {D}s at t={steps_done * step}s with step {step}s: expected ValueError and 0 steps, got {did} steps, raised={raised!r}"})
                    res["counters"]["short_request"] = res["counters"].get("short_request", 0) + 1
                else:
                    if raised is not None:
                        viol.append({"clause": "step-count", "key": f"sec={S.second}",
                                     "detail": f"call {call_no}: requested {D}s from {S.isoformat()} (t={steps_done * step}s, step {step}s): expected {expect} steps, propagateTo raised ValueError({raised})"})
                    elif did != expect:
                        viol.append({"clause": "step-count", "key": f"sec={S.second}",
                                     "detail": f"call {call_no}: requested {D}s from {S.isoformat()} (t={steps_done * step}s, step {step}s): expected {expect} steps, simulator took {did}"})
                steps_done += did
                if float(app.clock.time) != float(steps_done * step):
                    viol.append({"clause": "final-clock", "key": "clock.time", "detail": f"clock.time={float(app.clock.time)} after {steps_done} steps of {step}s"})
                if app.clock.datetime_epoch != S + dt.timedelta(seconds=steps_done * step):
                    viol.append({"clause": "final-clock", "key": "clock.datetime_epoch", "detail": f"clock.datetime_epoch={app.clock.datetime_epoch} after {steps_done} steps"})
            res["nontrivial"] = steps_done > 0 or rejected > 0
            res["sim_seconds"] = float(steps_done * step)
            res["counters"]["steps"] = steps_done
            res["counters"]["calls"] = len(case["plan"])
            if steps_done > ncfg:
                res["counters"]["ran_past_configured_stop"] = 1
            if S.second != 0:
                res["counters"]["start_not_on_whole_minute"] = 1
            if case.get("eop_synth"):
                res["counters"]["start_outside_eop_table"] = 1

            # conversions at every instant the run visited (and the requested targets)
            instants = [S_us + k * step * 1_000_000 for k in range(steps_done + 1)]
            instants += [S_us + int(p["seconds"]) * 1_000_000 for p in case["plan"]]
            instants = sorted(set(instants))
            prev_jd = None
            max_err = 0.0
            for us in instants:
                t = xt.from_us(us)
                jd = datetimeToJulianDate(t)
                err = xt.jd_err_days(float(jd), us)
                max_err = max(max_err, err)
                if over(err, xt.JD_TOL_DAYS):
                    viol.append({"clause": "julian-date-value", "key": t.isoformat(), "detail": f"datetimeToJulianDate({t.isoformat()})={float(jd)!r} off by {err:.3e} day"})
                back = julianDateToDatetime(jd)
                if back != t:
                    viol.append({"clause": "roundtrip", "key": f"sec={t.second}",
                                 "detail": f"julianDateToDatetime(datetimeToJulianDate({t.isoformat()})) = {back.isoformat()}"})
                if prev_jd is not None and not float(jd) > prev_jd:
                    viol.append({"clause": "monotonic", "key": t.isoformat(), "detail": f"JD not strictly increasing at {t.isoformat()}"})
                prev_jd = float(jd)
            res["tolerances"]["julian_date_day"] = [max_err, xt.JD_TOL_DAYS]
            res["counters"]["instants_checked"] = len(instants)
            jd0 = app.clock.julian_date_start
            max_st = 0.0
            for k in range(steps_done + 1):
                st = ScenarioTime(k * step)
                rt = st.convertToJulianDate(jd0).convertToScenarioTime(jd0)
                max_st = max(max_st, abs(float(rt) - k * step))
                if abs(float(rt) - k * step) > 1e-4:
                    viol.append({"clause": "scenario-time-roundtrip", "key": f"k={k}", "detail": f"{k * step}s -> JD -> {float(rt)!r}s"})
            res["tolerances"]["scenario_time_roundtrip_s"] = [max_st, 1e-4]

            # recorded epochs and truth rows
            rows = read_db(ctx.db_path, "select julian_date, timestampISO from epochs order by julian_date")
            seen_k = {}
            last_jd = None
            for jd, iso in rows:
                t = dt.datetime.fromisoformat(iso)
                us = xt.to_us(t)
                off = us - S_us
                if off % (step * 1_000_000) != 0 or off < 0:
                    viol.append({"clause": "epoch-rows", "key": "off-grid", "detail": f"epoch row {iso} is not start + k*step"})
                    continue
                k = off // (step * 1_000_000)
                if k in seen_k:
                    viol.append({"clause": "epoch-rows", "key": "duplicate", "detail": f"epoch {iso} stored twice"})
                seen_k[k] = jd
                if not xt.jd_close(jd, us):
                    viol.append({"clause": "epoch-rows", "key": "jd-mismatch", "detail": f"epoch {iso} has julian_date {jd!r}, off by {xt.jd_err_days(jd, us):.3e} day"})
                if last_jd is not None and not jd > last_jd:
                    viol.append({"clause": "epoch-rows", "key": "order", "detail": f"epoch julian dates not strictly increasing at {iso}"})
                last_jd = jd
            need = set(range(0, ncfg + 1)) | {k for k in range(steps_done + 1) if (k * step) % out_step == 0}
            missing = sorted(need - set(seen_k))
            if missing:
                viol.append({"clause": "epoch-rows", "key": "missing", "detail": f"no epoch row for k={missing[:8]} (step {step}s)"})
            trows = read_db(ctx.db_path, "select e.timestampISO, t.agent_id from truth_ephemerides t join epochs e on e.julian_date = t.julian_date")
            got = {}
            for iso, aid in trows:
                off = xt.to_us(dt.datetime.fromisoformat(iso)) - S_us
                got.setdefault(aid, []).append(off / (step * 1_000_000))
            want = [float(k) for k in range(steps_done + 1) if (k * step) % out_step == 0]
            n_all = read_db(ctx.db_path, "select count(*) from truth_ephemerides")[0][0]
            if n_all != len(trows):
                viol.append({"clause": "truth-rows", "key": "dangling", "detail": f"{n_all - len(trows)} truth rows join no epoch"})
            for aid in (10001, 90001):
                if sorted(got.get(aid, [])) != want:
                    viol.append({"clause": "truth-rows", "key": "epochs", "detail": f"agent {aid}: truth rows at k={sorted(got.get(aid, []))[:12]}, expected {want[:12]}"})
            res["digest"] = history_digest(ctx, [res["violations"], res["counters"]])
        finally:
            cleanup(ctx)
        return res

    # -- shrinking ----------------------------------------------------------------------------
    def shrink_candidates(self, case, violation):
        t = case["config"]["time"]
        step = t["physics_step_sec"]
        S = parse_ts(t["start_timestamp"])

        def variant(tag, mut):
            c = copy.deepcopy(case)
            mut(c)
            c["_shrunk_by"] = tag
            return c

        if len(case["plan"]) > 1:
            for i in range(len(case["plan"])):
                yield variant(f"drop-call-{i}", lambda c, i=i: c["plan"].pop(i))
        for i, p in enumerate(case["plan"]):
            d = p["seconds"]
            if d != int(d):
                yield variant("whole-seconds", lambda c, i=i, d=d: c["plan"][i].__setitem__("seconds", int(d)))
            k = int(d) // step
            for k2 in (1, 2, k // 2):
                if 0 < k2 < k:
                    yield variant(f"fewer-steps-{k2}", lambda c, i=i, k2=k2, d=d: c["plan"][i].__setitem__("seconds", k2 * step + (int(d) - k * step)))
        if t["output_step_sec"] != step:
            yield variant("out=step", lambda c: c["config"]["time"].__setitem__("output_step_sec", step))
        if step not in (60, 300):
            def set_step(c, new=60):
                old = c["config"]["time"]["physics_step_sec"]
                c["config"]["time"]["physics_step_sec"] = new
                c["config"]["time"]["output_step_sec"] = new
                n = round((parse_ts(c["config"]["time"]["stop_timestamp"]) - S).total_seconds() / old)
                c["config"]["time"]["stop_timestamp"] = fmt_ts(S + dt.timedelta(seconds=n * new))
                for p in c["plan"]:
                    p["seconds"] = (int(p["seconds"]) // old) * new + (p["seconds"] - (int(p["seconds"]) // old) * old) % new
            yield variant("step=60", set_step)
        if case.get("eop_synth"):
            def into_table(c):
                ns = S.replace(year=2020) if not (S.month == 2 and S.day == 29) else S.replace(year=2020)
                shift = ns - S
                c["config"]["time"]["start_timestamp"] = fmt_ts(ns)
                c["config"]["time"]["stop_timestamp"] = fmt_ts(parse_ts(c["config"]["time"]["stop_timestamp"]) + shift)
                c["eop_synth"] = False
            yield variant("year=2020", into_table)
        for field, val in (("second", 0), ("minute", 0), ("hour", 12)):
            if getattr(S, field) != val:
                def shift_start(c, field=field, val=val):
                    ns = S.replace(**{field: val})
                    c["config"]["time"]["start_timestamp"] = fmt_ts(ns)
                    c["config"]["time"]["stop_timestamp"] = fmt_ts(parse_ts(c["config"]["time"]["stop_timestamp"]) + (ns - S))
                yield variant(f"start-{field}={val}", shift_start)


CHECK = C05()
