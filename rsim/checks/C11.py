"""C11 - ground facilities stay fixed at their configured geodetic location.

Runs with 1-3 ground sensors at arbitrary sites; start instants at one-second granularity, steps
2..3600 s, up to ~1.5 days (crossing midnight / month / year boundaries).  At every epoch the
agent's inertial state is converted back with the repo's ``eci2ecef`` evaluated at the **exact**
epoch datetime computed by the harness (integer arithmetic) and compared with rsim's closed-form
ellipsoid point for the configured latitude / longitude / altitude.
"""

from __future__ import annotations

import datetime as dt
import math
import random

import numpy as np

from .. import gen, probes
from ..core import Check, jdigest, result_template
from ..oracles import exacttime as xt
from ..oracles import geom
from ..run import cleanup, fmt_ts, history_digest, read_db
from .common import drive, generic_shrinks, note_abort, over, time_info, variant

POS_TOL_KM = 1e-3
VEL_TOL_KMS = 1e-7


class C11(Check):
    pid = "C11"
    level = "exploration"
    quick_budget_s = 45.0
    thorough_budget_s = 900.0
    rule = ("case = (start instant at 1 s granularity inside the EOP table, step, number of steps, 1-3 ground sites, 0-2 further sites joining through sensor_addition events); every epoch of "
            "every site is judged; non-trivial = at least one step ran; distinct = digest of (time block, sites)")
    assumptions = [
        "the repo's IAU-76/FK5 eci2ecef is trusted as the inverse transform *at the exact epoch* (C04 is about the transform itself)",
        "reference ellipsoid constants (a, e) are the repo's Earth model; the closed-form formula is rsim's",
        "tolerances: 1 m in position, 1e-7 km/s in Earth-fixed velocity",
    ]
    real_components = ["Scenario/ScenarioClock", "Terrestrial dynamics", "SensingAgent", "transforms (ecef2eci/eci2ecef, ecef2lla)", "PropagateExecutor/JobExecutor", "SQLite output DB"]
    stub_components = ["ray (rsim.simray)"]

    def setup(self, tier):
        probes.install_step_recorder()

    def gen(self, rng: random.Random, tier: str, index: int) -> dict:
        mode = rng.random()
        if mode < 0.75:
            step = rng.choice([2, 7, 30, 59, 60, 61, 97, 300, 600, 1800, 3600]) if rng.random() < 0.7 else rng.randrange(2, 3601)
            nsteps = rng.randrange(1, 9)
        else:
            step = rng.choice([900, 1800, 3600])
            nsteps = rng.randrange(8, 37 if tier == "thorough" else 20)
        total = step * nsteps
        start = gen.draw_start(rng, gen.EOP_FIRST, gen.EOP_LAST - dt.timedelta(seconds=total + 86400), whole_minute_p=0.08)
        if rng.random() < 0.3:
            # force the run across midnight
            mid = start.replace(hour=0, minute=0, second=0) + dt.timedelta(days=1)
            start = mid - dt.timedelta(seconds=rng.randrange(1, max(2, total)))
        sensors = []
        for i in range(rng.choice([1, 1, 2, 3])):
            lat, lon, alt = gen.draw_site(rng)
            kind = rng.choice(["optical", "radar", "adv_radar"])
            sensors.append(gen.ground_sensor(90001 + i, lat, lon, alt, gen.sensor_block(kind)))
        orb = gen.draw_orbit(rng, rng.choice(["leo", "geo"]))
        cfg = gen.base_config(start, step, nsteps, [gen.engine_block(1, sensors, [gen.eci_target(10001, orb["pos"], orb["vel"])])],
                              out_step=step * rng.choice([1, 1, 2]), model="two_body", truth_only=True, seed=rng.randrange(1, 2**31))
        # ground facilities that join the run through a sensor_addition event (whole-second event times, on and off step boundaries)
        if rng.random() < 0.35:
            cfg.setdefault("events", [])
            for j in range(rng.choice([1, 1, 2])):
                lat, lon, alt = gen.draw_site(rng)
                k = rng.randrange(1, nsteps + 1)
                off = 0 if rng.random() < 0.6 else -rng.randrange(0, step)
                T = start + dt.timedelta(seconds=k * step + off)
                if T <= start:
                    T = start + dt.timedelta(seconds=step)
                cfg["events"].append({"scope": "scenario_step", "scope_instance_id": 0, "event_type": "sensor_addition", "start_time": fmt_ts(T), "tasking_engine_id": 1,
                                      "sensor_agent": gen.ground_sensor(95001 + j, lat, lon, alt, gen.sensor_block(rng.choice(["optical", "radar", "adv_radar"])))})
        ncalls = rng.choice([1, 1, 2])
        plan = [{"seconds": step * nsteps}] if ncalls == 1 or nsteps < 2 else [{"seconds": step * rng.randrange(1, nsteps)}, {"seconds": step * nsteps}]
        return {"config": cfg, "plan": plan, "schedule": {"name": "seeded", "seed": rng.randrange(2**31)}, "job_seed": rng.randrange(2**31), "tz": gen.draw_tz(rng)}

    def sample_view(self, case):
        t = case["config"]["time"]
        sites = [(s["state"]["latitude"], s["state"]["longitude"], s["state"]["altitude"]) for e in case["config"]["engines"] for s in e["sensors"]]
        added = [(e["start_time"], e["sensor_agent"]["state"]["latitude"], e["sensor_agent"]["state"]["longitude"]) for e in case["config"].get("events", [])]
        return {"start": t["start_timestamp"], "step": t["physics_step_sec"], "plan": case["plan"], "sites_lat_lon_alt": sites, "sites_added_by_event": added}

    def run(self, case: dict) -> dict:
        res = result_template()
        viol = res["violations"]
        S, step, out, ncfg = time_info(case)
        sites = {s["id"]: s["state"] for e in case["config"]["engines"] for s in e["sensors"]}
        added = {e["sensor_agent"]["id"]: e["sensor_agent"]["state"] for e in case["config"].get("events", []) if e["event_type"] == "sensor_addition"}
        sites.update(added)
        res["key"] = jdigest([case["config"]["time"], sorted((k, v["latitude"], v["longitude"], v["altitude"]) for k, v in sites.items()), case["config"].get("events")])
        ctx = drive(case)
        try:
            aborted = note_abort(ctx, res)
            from resonaate.physics.transforms.methods import eci2ecef

            ref = {sid: geom.lla_to_ecef(math.radians(st["latitude"]), math.radians(st["longitude"]), st["altitude"]) for sid, st in sites.items()}
            S_us = xt.to_us(S)
            snaps = probes.of_kind("snap")
            max_pos = max_vel = max_lla = 0.0
            crossed_midnight = 0
            for sn in snaps:
                k = sn["k"]
                exact = xt.from_us(S_us + k * step * 1_000_000)
                if exact.date() != S.date():
                    crossed_midnight = 1
                for sid, eci in sn["sensors"].items():
                    if abs(sn["sensor_time"][sid] - k * step) > 1e-6:
                        viol.append({"clause": "agent-time", "key": "sensor-time", "detail": f"site {sid} reports time {sn['sensor_time'][sid]!r} at step {k} (expected {k * step})"})
                    ecef = eci2ecef(eci, exact)
                    dpos = float(np.linalg.norm(ecef[:3] - ref[sid]))
                    dvel = float(np.linalg.norm(ecef[3:]))
                    max_pos, max_vel = max(max_pos, dpos), max(max_vel, dvel)
                    if over(dpos, POS_TOL_KM):
                        viol.append({"clause": "site-moved", "key": f"sec={S.second}",
                                     "detail": f"site {sid} ({sites[sid]['latitude']},{sites[sid]['longitude']}) is {dpos * 1000:.2f} m from its configured position at step {k} ({exact.isoformat()}), start {S.isoformat()} step {step}s"})
                    if over(dvel, VEL_TOL_KMS):
                        viol.append({"clause": "site-velocity", "key": f"sec={S.second}",
                                     "detail": f"site {sid}: Earth-fixed velocity {dvel:.3e} km/s at step {k} ({exact.isoformat()})"})
                    lla = sn["sensor_lla"][sid]
                    dl = float(np.linalg.norm(geom.lla_to_ecef(lla[0], lla[1], lla[2]) - ref[sid]))
                    max_lla = max(max_lla, dl)
                    if over(dl, POS_TOL_KM):
                        viol.append({"clause": "site-lla", "key": f"sec={S.second}", "detail": f"site {sid}: reported lat/lon/alt is {dl * 1000:.2f} m from configured at step {k}"})
            # stored truth rows of the ground agents
            rows = read_db(ctx.db_path, "select e.timestampISO, t.agent_id, t.pos_x_km, t.pos_y_km, t.pos_z_km, t.vel_x_km_p_sec, t.vel_y_km_p_sec, t.vel_z_km_p_sec "
                                        "from truth_ephemerides t join epochs e on e.julian_date = t.julian_date")
            nrows = 0
            for iso, aid, *st in rows:
                if aid not in ref:
                    continue
                nrows += 1
                ecef = eci2ecef(np.array(st, dtype=float), dt.datetime.fromisoformat(iso))
                dpos = float(np.linalg.norm(ecef[:3] - ref[aid]))
                if over(dpos, POS_TOL_KM):
                    viol.append({"clause": "site-moved-db", "key": f"sec={S.second}", "detail": f"stored truth row of site {aid} at {iso} is {dpos * 1000:.2f} m from its configured position"})
            steps = max(sn["k"] for sn in snaps) if snaps else 0
            res["nontrivial"] = steps > 0
            res["sim_seconds"] = float(steps * step)
            n_added = sum(1 for sn in snaps for sid in sn["sensors"] if sid in added)
            res["counters"].update({"epochs_judged": sum(len(sn["sensors"]) for sn in snaps), "epochs_judged_of_sites_added_by_event": n_added, "db_rows_judged": nrows, "crossed_midnight": crossed_midnight,
                               "start_not_on_whole_minute": int(S.second != 0), "high_latitude_site": int(any(abs(s["latitude"]) > 80 for s in sites.values())),
                               "antimeridian_site": int(any(abs(abs(s["longitude"]) - 180) < 0.01 for s in sites.values()))})
            if aborted and not snaps:
                res["skipped"] = f"aborted:{type(ctx.error).__name__}"
            res["tolerances"] = {"site_position_km": [max_pos, POS_TOL_KM], "site_ecef_velocity_kms": [max_vel, VEL_TOL_KMS], "site_lla_km": [max_lla, POS_TOL_KM]}
            res["digest"] = history_digest(ctx, [viol, res["counters"]])
        finally:
            cleanup(ctx)
        return res

    def shrink_candidates(self, case, violation):
        yield from generic_shrinks(case)
        sensors = case["config"]["engines"][0]["sensors"]
        if len(sensors) > 1:
            for i in range(len(sensors)):
                yield variant(case, f"drop-site-{i}", lambda c, i=i: c["config"]["engines"][0]["sensors"].pop(i))


CHECK = C11()
