"""Helpers shared by the checks: driving a case, common case mutations for shrinking."""

from __future__ import annotations

import copy
import os
import datetime as dt

from .. import probes, simray
from ..run import RunContext, build, fmt_ts, parse_ts, run_plan

NUMERICAL_ABORTS = ("LinAlgError",)


def drive(case: dict, ctx: RunContext | None = None, tolerate=()) -> RunContext:
    """Reset probes, build the scenario and execute the plan.  Exceptions raised by resonaate
    are stored in ``ctx.error`` (the check decides what they mean)."""
    ctx = ctx or RunContext(case)
    probes.reset()
    try:
        build(case, ctx)
        run_plan(ctx)
    except Exception as exc:  # noqa: BLE001
        ctx.error = exc
        if os.environ.get("RSIM_SHOW_ABORTS"):   # diagnostic aid: what made runs abort, and where
            import traceback

            tb = traceback.extract_tb(exc.__traceback__)
            where = " <- ".join(f"{os.path.basename(f.filename)}:{f.lineno}:{f.name}" for f in tb[-14:][::-1])
            with open(os.environ["RSIM_SHOW_ABORTS"], "a") as fh:
                fh.write(f"[abort] {type(exc).__name__}: {str(exc)[:200]} @ {where}\n")
    return ctx


def raised_in_harness(exc: BaseException) -> bool:
    """True if the innermost frame of the exception lies in rsim code (a harness bug), not in resonaate."""
    import os

    if "rsim injected" in str(exc) or "rsim: injected" in str(exc):
        return False   # a fault the simulator injected on purpose
    tb = exc.__traceback__
    last = None
    while tb is not None:
        last = tb
        tb = tb.tb_next
    if last is None:
        return False
    fn = os.path.realpath(last.tb_frame.f_code.co_filename)
    here = os.path.realpath(os.path.dirname(os.path.dirname(__file__)))
    return fn.startswith(here) and not isinstance(exc, simray.WorkerDiedError)


def note_abort(ctx, res) -> bool:
    """Classify ``ctx.error``: re-raise harness bugs, count resonaate aborts. Returns True if aborted."""
    if ctx.error is None:
        return False
    if raised_in_harness(ctx.error):
        raise ctx.error
    name = type(ctx.error).__name__
    res["counters"][f"aborted_{name}"] = res["counters"].get(f"aborted_{name}", 0) + 1
    return True


def time_info(case):
    t = case["config"]["time"]
    S = parse_ts(t["start_timestamp"])
    step = int(t["physics_step_sec"])
    out = int(t["output_step_sec"])
    ncfg = round((parse_ts(t["stop_timestamp"]) - S).total_seconds() / step)
    return S, step, out, ncfg


def interleaving_key() -> str:
    from ..core import jdigest

    return jdigest([(b["labels"], b["order"], b["exec"]) for b in simray.STATE.batches if len(b["labels"]) > 1])


def variant(case, tag, mut):
    c = copy.deepcopy(case)
    mut(c)
    c["_shrunk_by"] = tag
    return c


def shift_start(c, new_start: dt.datetime):
    t = c["config"]["time"]
    S = parse_ts(t["start_timestamp"])
    delta = new_start - S
    t["start_timestamp"] = fmt_ts(new_start)
    t["stop_timestamp"] = fmt_ts(parse_ts(t["stop_timestamp"]) + delta)
    for ev in c["config"].get("events", []):
        ev["start_time"] = fmt_ts(parse_ts(ev["start_time"]) + delta)
        if ev.get("end_time"):
            ev["end_time"] = fmt_ts(parse_ts(ev["end_time"]) + delta)


def generic_shrinks(case):
    """Mutations valid for any case: fewer steps, fewer calls, simpler schedule, start towards :00."""
    S, step, out, ncfg = time_info(case)
    plan = case["plan"]
    if len(plan) > 1:
        yield variant(case, "single-call", lambda c: c.__setitem__("plan", [c["plan"][-1]]))
    last = plan[-1]["seconds"]
    k = int(last) // step
    for k2 in sorted({1, 2, k // 2, k - 1}):
        if 0 < k2 < k:
            yield variant(case, f"steps={k2}", lambda c, k2=k2: c.__setitem__("plan", [{"seconds": k2 * step}]))
    sched = case.get("schedule") or {}
    if sched.get("name") not in (None, "fifo"):
        yield variant(case, "fifo", lambda c: c.__setitem__("schedule", {"name": "fifo"}))
    if out != step:
        yield variant(case, "out=step", lambda c: c["config"]["time"].__setitem__("output_step_sec", step))
    for field, val in (("second", 0), ("minute", 0)):
        if getattr(S, field) != val:
            yield variant(case, f"start-{field}={val}", lambda c, field=field, val=val: shift_start(c, S.replace(**{field: val})))
    evs = case["config"].get("events", [])
    for i in range(len(evs)):
        yield variant(case, f"drop-event-{i}", lambda c, i=i: c["config"]["events"].pop(i))


def over(value, limit) -> bool:
    """``value > limit`` that is also true for a non-finite value (NaN compares false with everything)."""
    return not (value <= limit)
