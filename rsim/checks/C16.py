"""C16 - filter updates are invariant to angle representation and observation order.

Both clauses have a simulator-controlled cause: the *order* of simultaneous observations is the
completion order of task jobs and the row order of an importer file; the *representation* of an
angle is whatever an importer file contains.  Two kinds of cases:

* ``order``: a network with co-located sensors / wide fields of view so that several observations
  of one target are stacked in one update; the case is run under several schedules and the
  posteriors are compared (1e-9 relative).
* ``repr``: a realtime run produces observations; they are re-imported (realtime observation off)
  once as stored and once with azimuths shifted by whole turns, expressed in (-pi, pi], and with
  rows shuffled; posteriors must agree.  Targets are placed due north / south of the sites so that
  azimuth sits on the 0/360 and +-180 seams.

In every run each UKF update is monitored: angular innovations lie in (-pi, pi] and equal rsim's
own wrapped difference; the predicted-measurement mean of angular components equals rsim's own
weighted circular mean (with the filter's weights, negative centre weight included).
"""

from __future__ import annotations

import math
import os
import random
import shutil

import numpy as np

from .. import gen, importer, probes
from ..core import Check, jdigest, result_template, scratch_dir
from ..oracles import geom, visibility
from ..run import cleanup, wrap_method
from . import sched
from .common import drive, generic_shrinks, over, raised_in_harness, time_info, variant


EPS = 2.3e-16


def install_update_monitor():
    from resonaate.estimation.kalman.unscented_kalman_filter import UnscentedKalmanFilter

    def after_mean(self, tok, res, measurement_sigma_pts, is_angular, *a, **k):
        # IsAngle: NOT_ANGLE=1, ANGLE_0_2PI=2, ANGLE_NEG_PI_PI=3  ->  0 / 2 / 1
        probes.rec("meas_mean", sigma=np.array(measurement_sigma_pts, dtype=float).copy(), angular=[{1: 0, 3: 1, 2: 2}[int(x)] for x in is_angular],
                   weights=np.array(self.mean_weight, dtype=float).copy(), mean=np.array(res, dtype=float).copy())

    wrap_method(UnscentedKalmanFilter, "calcMeasurementMean", after=after_mean)

    def after_sigma_meas(self, tok, res, observations, *a, **k):
        # what each stacked observation says about itself (sensor position, epoch, what it measures) next to the predicted sigma measurements
        probes.rec("sigma_meas", target=self.target_id, sigma_x=np.array(self.sigma_points, dtype=float).copy(), sigma_y=np.array(res, dtype=float).copy(),
                   obs=[{"sensor_eci": np.array(o.sensor_eci, dtype=float).copy(), "jd": float(o.julian_date), "labels": list(o.measurement.labels), "sensor": int(o.sensor_id)} for o in observations])

    wrap_method(UnscentedKalmanFilter, "_calcMeasurementSigmaPoints", after=after_sigma_meas)

    def after_update(self, tok, res, observations, *a, **k):
        if not observations:
            return
        probes.rec("ukf_update", target=self.target_id, n_obs=len(observations), true_y=np.array(self.true_y, dtype=float).copy(),
                   pred_y=np.array(self.mean_pred_y, dtype=float).copy(), angular=[bool(x) for x in self.is_angular],
                   labels=[lab for o in observations for lab in o.measurement.labels],
                   innovation=np.array(self.innovation, dtype=float).copy(), est_x=np.array(self.est_x, dtype=float).copy(),
                   est_p=np.array(self.est_p, dtype=float).copy(), dims=[int(o.dim) for o in observations],
                   pred_x=np.array(self.pred_x, dtype=float).copy(), pred_p=np.array(self.pred_p, dtype=float).copy(),
                   sigma_y_res=np.array(self.sigma_y_res, dtype=float).copy(), sigma_x_res=np.array(self.sigma_x_res, dtype=float).copy(), cvr_weight=np.array(self.cvr_weight, dtype=float).copy(),
                   innov_cvr=np.array(self.innov_cvr, dtype=float).copy(), cross_cvr=np.array(self.cross_cvr, dtype=float).copy(), r_matrix=np.array(self.r_matrix, dtype=float).copy(),
                   cond=float(np.linalg.cond(self.innov_cvr)), dx=np.abs(np.array(self.est_x, dtype=float) - np.array(self.pred_x, dtype=float)),
                   dp=float(np.max(np.abs(np.array(self.pred_p) - np.array(self.est_p)))))

    wrap_method(UnscentedKalmanFilter, "update", after=after_update)


def judge_updates(viol, cnt, res, cond=None, ecef_at=None):
    """Judge every UKF update of the run just finished; ``cond`` collects, per (step, target), the
    conditioning of the innovation covariance and the size of the update (for the posterior tolerances)."""
    max_inn = max_mean = 0.0
    for r in probes.of_kind("ukf_update"):
        if cond is not None:
            cond[(r["step"], r["target"])] = r
        cnt["updates"] = cnt.get("updates", 0) + 1
        if r["n_obs"] >= 2:
            cnt["updates_with_2plus_stacked_observations"] = cnt.get("updates_with_2plus_stacked_observations", 0) + 1
        if len(set(r["dims"])) > 1:
            cnt["updates_mixing_optical_and_radar"] = cnt.get("updates_mixing_optical_and_radar", 0) + 1
        # which rows are angles follows from what was measured (azimuth, elevation), not from what the filter remembers
        own = [lab in ("azimuth_rad", "elevation_rad") for lab in r["labels"]]
        if own != list(r["angular"]):
            viol.append({"clause": "angular-flags-do-not-match-the-stack", "key": "flags",
                         "detail": f"step {r['step']} target {r['target']}: stacked measurements {r['labels']} but the filter treats rows {[i for i, a in enumerate(r['angular']) if a]} as angles"})
            r["angular"] = own
        for i, ang in enumerate(r["angular"]):
            if not ang:
                continue
            inn = float(r["innovation"][i])
            if not (-math.pi < inn <= math.pi + 1e-15):
                viol.append({"clause": "innovation-out-of-range", "key": "angular", "detail": f"step {r['step']} target {r['target']}: angular innovation {inn!r} outside (-pi, pi]"})
            ref = geom.wrap_pi(float(r["true_y"][i]) - float(r["pred_y"][i]))
            d = abs(geom.wrap_pi(inn - ref))
            max_inn = max(max_inn, d)
            if over(d, 1e-11):
                viol.append({"clause": "innovation-not-wrapped-difference", "key": "angular",
                             "detail": f"step {r['step']} target {r['target']} component {i}: innovation {inn!r}, measured {float(r['true_y'][i])!r} - predicted {float(r['pred_y'][i])!r} wraps to {ref!r}"})
            if abs(abs(float(r["true_y"][i]) - float(r["pred_y"][i])) - 2 * math.pi) < 0.5 or abs(float(r["true_y"][i]) - float(r["pred_y"][i])) > math.pi:
                cnt["innovations_across_a_seam"] = cnt.get("innovations_across_a_seam", 0) + 1
    # every predicted sigma measurement comes from the measurement model evaluated with *its* observation's sensor position and epoch (rsim's own geometry)
    if ecef_at is not None:
        max_h = 0.0
        for r in probes.of_kind("sigma_meas"):
            row = 0
            bad = None
            for ob in r["obs"]:
                when = ecef_at["when"](ob["jd"])
                s_ecef = ecef_at["ecef"](ob["sensor_eci"], when)
                for j in range(r["sigma_x"].shape[1]):
                    az, el, rng_km, rr, _rho = visibility.topocentric(s_ecef, ecef_at["ecef"](r["sigma_x"][:, j], when))
                    ref_m = {"azimuth_rad": az, "elevation_rad": el, "range_km": rng_km, "range_rate_km_p_sec": rr}
                    for li, lab in enumerate(ob["labels"]):
                        got_v = float(r["sigma_y"][row + li, j])
                        d = abs(geom.wrap_pi(got_v - ref_m[lab])) if lab.endswith("_rad") else abs(got_v - ref_m[lab])
                        lim = {"azimuth_rad": 1e-9, "elevation_rad": 1e-9, "range_km": 1e-6, "range_rate_km_p_sec": 1e-9}[lab]
                        if abs(el) > math.radians(89.99) and lab == "azimuth_rad":
                            continue
                        max_h = max(max_h, d / lim)
                        if over(d, lim) and bad is None:
                            bad = f"observation of sensor {ob['sensor']} ({lab}, sigma point {j}): predicted {got_v!r}, measurement model with that observation's own sensor position and epoch gives {ref_m[lab]!r}"
                row += len(ob["labels"])
            cnt["predicted_sigma_measurements_recomputed"] = cnt.get("predicted_sigma_measurements_recomputed", 0) + 1
            if bad:
                viol.append({"clause": "predicted-measurement-not-from-its-observation", "key": "sensor-frame", "detail": f"step {r['step']} target {r['target']}: {bad}"})
                break
        res["tolerances"]["predicted_sigma_measurement_vs_model(units of 1e-9 rad / 1e-6 km)"] = [max(res["tolerances"].get("predicted_sigma_measurement_vs_model(units of 1e-9 rad / 1e-6 km)", [0, 0])[0], max_h), 1.0]
    # the sigma-point residuals behind the innovation / cross covariances: wrapped differences to the predicted mean, whichever side of a seam they fall on
    means = probes.of_kind("meas_mean")
    max_res = max_cvr = 0.0
    for r in probes.of_kind("ukf_update"):
        prior = [m for m in means if m["seq"] < r["seq"] and m["sigma"].shape == r["sigma_y_res"].shape]
        if not prior:
            continue
        sig = prior[-1]["sigma"]
        ref = sig - r["pred_y"][:, None]
        for i, ang in enumerate(r["angular"]):
            if ang:
                ref[i] = [geom.wrap_pi(float(v)) for v in ref[i]]
        d = np.abs(r["sigma_y_res"] - ref)
        for i, ang in enumerate(r["angular"]):
            if ang:
                d[i] = [abs(geom.wrap_pi(float(v))) for v in (r["sigma_y_res"][i] - ref[i])]
                if not np.all((r["sigma_y_res"][i] > -math.pi - 1e-12) & (r["sigma_y_res"][i] <= math.pi + 1e-12)):
                    viol.append({"clause": "sigma-residual-out-of-range", "key": "angular",
                                 "detail": f"step {r['step']} target {r['target']} component {i}: sigma-point residuals {np.round(r['sigma_y_res'][i], 6).tolist()} outside (-pi, pi] (predicted mean {float(r['pred_y'][i])!r}, sigma measurements {np.round(sig[i], 6).tolist()})"})
                    break
        scale = 1e-11 * np.maximum(1.0, np.abs(sig).max(axis=1))[:, None]
        max_res = max(max_res, float(np.max(d / scale)))
        if over(float(np.max(d / scale)), 1.0):
            i = int(np.argmax(np.max(d / scale, axis=1)))
            viol.append({"clause": "sigma-residual-not-wrapped-difference", "key": "angular" if r["angular"][i] else "linear",
                         "detail": f"step {r['step']} target {r['target']} component {i}: sigma-point residuals {r['sigma_y_res'][i].tolist()} differ from the wrapped differences {ref[i].tolist()}"})
            continue
        # covariances assembled from them (documented: sum of weighted outer products + R).  The residuals just confirmed are used as
        # they are: with |centre weight| ~ 1e6 (alpha = 1e-3) the sum cancels by that factor and would amplify their last-bit differences
        W = r["cvr_weight"] if r["cvr_weight"].ndim == 2 else np.diag(r["cvr_weight"])
        own = r["sigma_y_res"]
        S_ref = own @ W @ own.T + r["r_matrix"]
        C_ref = r["sigma_x_res"] @ W @ own.T
        wsum = float(np.abs(W).sum())
        mres, mx = np.abs(own).max(axis=1), np.abs(r["sigma_x_res"]).max(axis=1)
        lim_s = 1e-12 * np.sqrt(np.outer(np.abs(np.diag(S_ref)), np.abs(np.diag(S_ref)))) + 50 * EPS * wsum * np.outer(mres, mres) + 1e-300
        lim_c = 1e-12 * np.abs(C_ref).max() + 50 * EPS * wsum * np.outer(mx, mres) + 1e-300
        ds, dc = float(np.max(np.abs(r["innov_cvr"] - S_ref) / lim_s)), float(np.max(np.abs(r["cross_cvr"] - C_ref) / lim_c))
        max_cvr = max(max_cvr, ds, dc)
        cnt["innovation_covariances_recomputed"] = cnt.get("innovation_covariances_recomputed", 0) + 1
        if over(ds, 1.0) or over(dc, 1.0):
            viol.append({"clause": "covariance-not-from-wrapped-residuals", "key": "innovation" if over(ds, 1.0) else "cross",
                         "detail": f"step {r['step']} target {r['target']}: innovation covariance differs from sum(w * res res^T) + R by {ds:.1f}x the allowance, cross covariance by {dc:.1f}x"})
    res["tolerances"]["sigma_residual_vs_wrapped_difference(units of 1e-11)"] = [max(res["tolerances"].get("sigma_residual_vs_wrapped_difference(units of 1e-11)", [0, 0])[0], max_res), 1.0]
    res["tolerances"]["innovation_and_cross_covariance_vs_reference(units of allowance)"] = [max(res["tolerances"].get("innovation_and_cross_covariance_vs_reference(units of allowance)", [0, 0])[0], max_cvr), 1.0]
    for r in probes.of_kind("meas_mean"):
        S, w = r["sigma"], r["weights"]
        for i, kind in enumerate(r["angular"]):
            if kind == 0:
                continue
            # well-conditioned form of the weighted circular mean: rotate by the first sigma measurement
            dlt = S[i] - S[i][0]
            ref = float(S[i][0]) + math.atan2(math.fsum(np.sin(dlt) * w), math.fsum(np.cos(dlt) * w))
            d = abs(geom.wrap_pi(float(r["mean"][i]) - ref))
            # the repo sums w*sin(theta) directly: with |centre weight| ~ 1e6 (alpha = 1e-3) that costs ~ sum|w| * eps
            tol = 1e-12 + 20 * 2.3e-16 * float(np.abs(w).sum())
            max_mean = max(max_mean, d / tol)
            lo, hi = (-math.pi, math.pi) if kind == 1 else (0.0, 2 * math.pi)
            if over(d, tol):
                viol.append({"clause": "measurement-mean-not-circular-mean", "key": "angular",
                             "detail": f"step {r['step']}: predicted measurement mean {float(r['mean'][i])!r} of angular component {i}, weighted circular mean of the sigma measurements is {ref!r}"})
            elif not (lo - 1e-12 <= float(r["mean"][i]) <= hi + 1e-12):
                viol.append({"clause": "measurement-mean-out-of-range", "key": "angular", "detail": f"step {r['step']}: mean {float(r['mean'][i])!r} outside [{lo}, {hi}]"})
            if float(np.ptp(S[i])) > math.pi:
                cnt["sigma_measurements_straddle_seam"] = cnt.get("sigma_measurements_straddle_seam", 0) + 1
        cnt["measurement_means_checked"] = cnt.get("measurement_means_checked", 0) + 1
    res["tolerances"]["innovation_vs_wrapped_difference_rad"] = [max(res["tolerances"].get("innovation_vs_wrapped_difference_rad", [0, 0])[0], max_inn), 1e-11]
    res["tolerances"]["mean_vs_circular_mean_in_units_of_tolerance(1e-12+20*eps*sum|w|)"] = [max(res["tolerances"].get("mean_vs_circular_mean_in_units_of_tolerance(1e-12+20*eps*sum|w|)", [0, 0])[0], max_mean), 1.0]


def estimates_of(snaps_rec):
    return {k: s.get("estimates", {}) for k, s in snaps_rec["steps"].items() if s.get("complete")}


def estimates_of(upd):
    return upd


def compare_estimates(a, b, what, viol, cnt, _cond=None):
    """Each update is judged as a function: given the same prior (predicted state and covariance equal to
    1e-12 relative in both runs) and the same observations in a different order / angle representation, the
    posterior must agree to 1e-9 relative plus the rounding that inverting the innovation covariance amplifies,
    100 * eps * cond(S) times the size of the update.  Once the priors of the two runs differ by more than
    rounding (the filter can amplify 1e-17 differences a million-fold per step when the covariance is nearly
    singular) later updates are not comparable and are counted as indeterminate."""
    mx = 0.0
    dead = set()
    for key in sorted(set(a) & set(b)):
        k, tid = key
        if tid in dead:
            cnt["updates_not_comparable_after_divergence"] = cnt.get("updates_not_comparable_after_divergence", 0) + 1
            continue
        ra, rb = a[key], b[key]
        if ra["n_obs"] != rb["n_obs"]:
            viol.append({"clause": f"posterior-depends-on-{what[0]}", "key": what[1], "detail": f"step {k} target {tid}: {ra['n_obs']} vs {rb['n_obs']} observations in the update, between {what[2]}"})
            return mx
        if not (np.allclose(ra["pred_x"], rb["pred_x"], rtol=1e-12, atol=1e-15) and np.allclose(ra["pred_p"], rb["pred_p"], rtol=1e-9, atol=1e-22)):
            dead.add(tid)
            cnt["updates_not_comparable_after_divergence"] = cnt.get("updates_not_comparable_after_divergence", 0) + 1
            continue
        c = max(ra["cond"], rb["cond"])
        amp = 100 * EPS * c
        if amp >= 1e-3:
            cnt["updates_too_ill_conditioned_to_judge"] = cnt.get("updates_too_ill_conditioned_to_judge", 0) + 1
            continue
        tol_x = 1e-9 * np.maximum(np.abs(ra["est_x"]), 1.0) + amp * np.maximum(ra["dx"], rb["dx"])
        # (the posterior is formed as P - K S K': when an update shrinks a large prior by orders of magnitude the subtraction keeps only eps * |prior|)
        # covariance: the repo forms K = C inv(S) with an explicit inverse and then P - K S K'; the product K S K' carries eps * cond(S)^2 (inverse, then
        # multiplied by S again), relative to the size of the update
        tol_p = 1e-9 * float(np.max(np.abs(ra["est_p"]))) + max(amp, 10 * EPS * c * c) * max(ra["dp"], rb["dp"]) + 100 * EPS * float(np.max(np.abs(ra["pred_p"])))
        rx = float(np.max(np.abs(ra["est_x"] - rb["est_x"]) / tol_x))
        rp = float(np.max(np.abs(ra["est_p"] - rb["est_p"])) / max(tol_p, 1e-300))
        mx = max(mx, rx, rp)
        cnt["posterior_pairs_compared"] = cnt.get("posterior_pairs_compared", 0) + 1
        if ra["n_obs"] >= 2:
            cnt["posterior_pairs_compared_with_2plus_observations"] = cnt.get("posterior_pairs_compared_with_2plus_observations", 0) + 1
        if over(rx, 1) or over(rp, 1):
            viol.append({"clause": f"posterior-depends-on-{what[0]}", "key": what[1],
                         "detail": f"step {k} target {tid}: same prior, {ra['n_obs']} observations: posterior state differs by {float(np.max(np.abs(ra['est_x'] - rb['est_x']))):.3e} "
                                   f"({rx:.1f}x the allowance), covariance by {float(np.max(np.abs(ra['est_p'] - rb['est_p']))):.3e} ({rp:.1f}x), cond(S)={c:.2e}, between {what[2]}"})
            return mx
    return mx


class C16(Check):
    pid = "C16"
    level = "exploration"
    quick_budget_s = 75.0
    thorough_budget_s = 1200.0
    per_run_timeout_s = 600.0
    rule = ("case kind 'order': network with co-located sensors / wide FoV run under a base and 4-8 alternative job-completion schedules; kind 'repr': realtime run, then its "
            "observations re-imported as stored and with azimuths re-represented (+-k turns, signed range) and rows shuffled; every UKF update of every run is monitored; "
            "non-trivial = at least one update stacked >= 2 observations (order) or >= 1 imported angular observation was re-represented (repr); distinct = digest of the case")
    assumptions = [
        "each update is judged as a function of (prior, observations): posteriors are compared only while the priors of the two runs agree to 1e-12, with tolerance 1e-9 relative + 100*eps*cond(S)*|update|; updates with cond(S) > 4e10 are not judged",
        "the helper identities over all inputs (exact seam values, arbitrary weights) are only exercised on the values runs produce; the generator aims targets at the 0/360 and 180 degree azimuths",
        "imported-observation path trusted to deliver observations (decided by C19)",
    ]
    real_components = ["UnscentedKalmanFilter.update/forecast/calcMeasurementMean", "physics.maths residuals / angularMean / wrap helpers", "measurement model", "task jobs and EstUpdate jobs", "importer observation path"]
    stub_components = ["ray (rsim.simray: completion orders)"]

    def setup(self, tier):
        self.tier = tier
        sched.install()
        install_update_monitor()

    def gen(self, rng: random.Random, tier: str, index: int) -> dict:
        kind = rng.choice(["order", "repr"])
        step = rng.choice([30, 60, 120, 300])
        nsteps = rng.randrange(2, 5)
        start = gen.draw_start(rng, gen.EOP_FIRST, gen.EOP_LAST)
        # co-located ground sensors looking at targets due north / south (azimuth seams)
        lat, lon, alt = rng.uniform(-60, 60), rng.uniform(-180, 180), rng.uniform(0, 2)
        n_s = rng.randrange(2, 5) if kind == "order" else rng.randrange(1, 4)
        dec = rng.choice(["AllVisibleDecision", "MyopicNaiveGreedyDecision", "MunkresDecision"])
        sensors = []
        for i in range(n_s):
            skind = "adv_radar" if dec == "AllVisibleDecision" else rng.choice(["radar", "adv_radar", "optical", "radar"])
            blk = gen.sensor_block(skind, coarse=rng.random() < 0.7, field_of_view={"fov_shape": "conic", "cone_angle": rng.choice([20.0, 60.0, 120.0])},
                                   elevation_range=[0.5, 89.9999])
            sensors.append(gen.ground_sensor(90001 + i, lat + rng.uniform(-0.02, 0.02), lon + rng.uniform(-0.02, 0.02), alt, blk))
        targets = []
        low = False
        site = {"latitude": lat, "longitude": lon, "altitude": alt}
        for j in range(rng.randrange(1, 4)):
            az = rng.choice([0.0, 0.0, 180.0, 360.0 - 1e-4, 1e-4, 180.0 + 1e-4, rng.uniform(0, 360)]) + rng.uniform(-2e-3, 2e-3)
            k = rng.randrange(0, nsteps + 1)
            import datetime as dt

            if rng.random() < 0.3:
                # a low target seen from the first sensor's own position: with kilometres of prior uncertainty the sigma points of the predicted azimuth
                # spread over ~1e-5..1e-3 rad even for alpha = 1e-3, enough to straddle the seam the target was placed on
                s0 = sensors[0]["state"]
                st = gen.place_over_site(rng, {"latitude": s0["latitude"], "longitude": s0["longitude"], "altitude": s0["altitude"]}, start + dt.timedelta(seconds=k * step), k * step,
                                         (az if rng.random() < 0.5 else rng.choice([0.0, 180.0]) + rng.uniform(-1e-4, 1e-4)) % 360.0, rng.uniform(25, 80), rng.uniform(800, 3000), rng.choice(["polar", "any"]))
                low = True
            else:
                st = gen.place_over_site(rng, site, start + dt.timedelta(seconds=k * step), k * step, az % 360.0, rng.uniform(25, 80), rng.uniform(36000, 40000), "corotate")
            targets.append(gen.eci_target(10001 + j, st[:3], st[3:]))
        big = rng.random() < 0.5 or low
        cfg = gen.base_config(start, step, nsteps, [gen.engine_block(1, sensors, targets, dec, {"name": "SimpleSummationReward", "metrics": [{"name": rng.choice(["TimeSinceObservation", "Range", "ShannonInformation"])}]})],
                              model="two_body", seed=rng.randrange(1, 2**31), background=True, estimation=gen.estimation_block(dynamics="two_body", alpha=rng.choice([0.001, 0.05, 0.5, 0.99]), resample=rng.random() < 0.5),
                              noise={"init_position_std_km": rng.choice([1.0, 5.0, 20.0]) if big else 1e-3, "init_velocity_std_km_p_sec": 1e-4 if big else 1e-6,
                                     "filter_noise_type": "continuous_white_noise", "filter_noise_magnitude": 3e-14, "random_seed": rng.randrange(1, 2**31)})
        if big:
            for s in sensors:
                s["sensor"]["covariance"] = gen.sensor_block(s["sensor"]["type"], coarse=True)["covariance"]
        case = {"kind": kind, "config": cfg, "plan": [{"seconds": nsteps * step}], "schedule": {"name": "fifo"}, "job_seed": rng.randrange(2**31), "sched_seed": rng.randrange(2**31)}
        if kind == "repr":
            case["variants"] = []
            for _ in range(rng.randrange(1, 4)):
                v = []
                m = rng.random()
                if m < 0.4:
                    v.append({"op": "angles", "turns": rng.choice([1, -1, 3, -7, 50, -50])})
                elif m < 0.8:
                    v.append({"op": "angles", "signed": True, "turns": 0})
                if rng.random() < 0.5 or not v:
                    v.append({"op": "shuffle", "how": rng.choice(["reverse", "interleave"])})
                case["variants"].append(v)
            # one more run in which realtime and stored observations of the same sensor are stacked together, the stored ones taken from a position a
            # few km away: every predicted measurement must come from its own observation's sensor position
            case["mixed_sources"] = [rng.uniform(-3, 3) for _ in range(3)] if rng.random() < 0.5 else None
        return case

    def sample_view(self, case):
        return {"kind": case["kind"], "time": case["config"]["time"], "sensors": [(s["id"], s["sensor"]["type"]) for s in case["config"]["engines"][0]["sensors"]],
                "targets": len(case["config"]["engines"][0]["targets"]), "decision": case["config"]["engines"][0]["decision"]["name"], "variants": case.get("variants", case.get("alts"))}

    def run(self, case: dict) -> dict:
        res = result_template()
        viol, cnt = res["violations"], res["counters"]
        res["key"] = jdigest(case)
        S, step, out, ncfg = time_info(case)
        if case["kind"] == "order":
            base_upd = {}
            base = sched.observe(case)
            judge_updates(viol, cnt, res, base_upd, ecef_at=self._ecef_ctx(case))
            if base["error"]:
                if base["numerical"]:
                    res["skipped"] = "aborted_numerical"
                    return res
                cnt["aborted_" + base["error"].split(":")[0]] = 1
            cap = 5 if getattr(self, "tier", "quick") == "quick" else 24
            alts = case.get("alts")
            if alts is None:
                alts = sched.alternatives(base["batches"], random.Random(case["sched_seed"]), cap, with_retry=False)
            inter = [jdigest(base["batches"])]
            mx = 0.0
            for desc in alts:
                c2 = dict(case)
                c2["schedule"] = desc
                alt = sched.observe(c2)
                alt_upd = {}
                judge_updates(viol, cnt, res, alt_upd, ecef_at=self._ecef_ctx(case))
                inter.append(jdigest(alt["batches"]))
                if alt["error"] or base["error"]:
                    continue
                n0 = len(viol)
                mx = max(mx, compare_estimates(base_upd, alt_upd, ("observation-order", "schedule", f"base schedule and {desc}"), viol, cnt))
                for x in viol[n0:]:
                    x["schedule"] = desc
                if viol:
                    break
            res["tolerances"]["posterior_difference_in_units_of_rounding_allowance"] = [mx, 1.0]
            res["interleavings"] = inter
            res["nontrivial"] = cnt.get("updates_with_2plus_stacked_observations", 0) > 0
            res["sim_seconds"] = float(ncfg * step * len(inter))
            res["digest"] = jdigest([inter, viol, sorted(cnt.items())])
            return res
        # ---- representation pairs through the importer
        base_dir = os.path.join(scratch_dir(), f"c16-{os.getpid()}")
        os.makedirs(os.path.join(base_dir, "p1"), exist_ok=True)
        try:
            c1 = dict(case)
            c1["_dir"] = os.path.join(base_dir, "p1")
            ctx1 = drive(c1)
            judge_updates(viol, cnt, res, ecef_at=self._ecef_ctx(case))
            if ctx1.error is not None:
                if raised_in_harness(ctx1.error):
                    raise ctx1.error
                res["skipped"] = f"phase1-aborted:{type(ctx1.error).__name__}"
                return res
            src = ctx1.db_path
            runs = []
            has_dups = False
            for vi, muts in enumerate([[]] + case["variants"]):
                wd = os.path.join(base_dir, f"v{vi}")
                os.makedirs(wd, exist_ok=True)
                imp = os.path.join(wd, "importer.sqlite3")
                info = importer.build(src, imp, muts)
                for m in muts:
                    res["faults"][f"importer_{m['op']}"] = res["faults"].get(f"importer_{m['op']}", 0) + 1
                cfg2 = dict(case["config"])
                cfg2["observation"] = dict(cfg2["observation"], realtime_observation=False)
                c2 = dict(case)
                c2["config"] = cfg2
                c2["_dir"] = wd
                c2["importer_db_url"] = f"sqlite:///{imp}"
                rec = sched.observe(c2)
                upd = {}
                judge_updates(viol, cnt, res, upd, ecef_at=self._ecef_ctx(case))
                keys = [(o[0], int(o[7] * 1_000_000), int(o[8] * 1_000_000), int(o[9] * 1_000_000), o[2]) for o in info["observations"]]
                if len(keys) != len(set(keys)):
                    # the loader drops "duplicate" observations (same sensor position, target, epoch) keeping the first row:
                    # with a primary and a serendipitous observation of one target by one sensor, *which* one is used
                    # depends on the row order - a different observation set, not a different order of the same set
                    has_dups = True
                runs.append((muts, rec, len([o for o in info["observations"] if o[3] is not None]), upd))
            if case.get("mixed_sources") and not viol:
                wd = os.path.join(base_dir, "mixed")
                os.makedirs(wd, exist_ok=True)
                imp = os.path.join(wd, "importer.sqlite3")
                importer.build(src, imp, [{"op": "shift_obs_sensor", "d": case["mixed_sources"]}])
                c3 = dict(case)
                c3["config"] = dict(case["config"])
                c3["config"]["observation"] = dict(case["config"]["observation"], realtime_observation=True)
                c3["_dir"] = wd
                c3["importer_db_url"] = f"sqlite:///{imp}"
                sched.observe(c3)
                before = len(viol)
                judge_updates(viol, cnt, res, ecef_at=self._ecef_ctx(case))
                cnt["runs_stacking_realtime_and_stored_observations_of_one_sensor"] = 1
                res["faults"]["importer_shift_obs_sensor"] = res["faults"].get("importer_shift_obs_sensor", 0) + 1
            base_rec = runs[0][1]
            mx = 0.0
            for muts, rec, n_ang, upd in runs[1:]:
                if rec["error"] or base_rec["error"]:
                    if bool(rec["error"]) != bool(base_rec["error"]) and not (rec["numerical"] or base_rec["numerical"]):
                        viol.append({"clause": "abort-depends-on-representation", "key": "importer", "detail": f"as-stored run error {base_rec['error']!r}, re-represented run ({muts}) error {rec['error']!r}"})
                    continue
                if has_dups and any(m["op"] == "shuffle" for m in muts):
                    cnt["shuffle_skipped_importer_has_duplicate_observations"] = cnt.get("shuffle_skipped_importer_has_duplicate_observations", 0) + 1
                    continue
                what = "angle-representation" if any(m["op"] == "angles" for m in muts) else "observation-order"
                mx = max(mx, compare_estimates(runs[0][3], upd, (what, "importer", f"observations as stored and re-represented by {muts}"), viol, cnt))
                if any(m["op"] == "angles" for m in muts) and n_ang:
                    cnt["imported_angular_observations_rerepresented"] = cnt.get("imported_angular_observations_rerepresented", 0) + n_ang
                    res["nontrivial"] = True
            res["tolerances"]["posterior_difference_in_units_of_rounding_allowance"] = [mx, 1.0]
            res["sim_seconds"] = float(ncfg * step * (1 + len(runs)))
            res["digest"] = jdigest([viol, sorted(cnt.items())])
        finally:
            shutil.rmtree(base_dir, ignore_errors=True)
        return res

    @staticmethod
    def _ecef_ctx(case):
        import datetime as _dt

        from resonaate.physics.time.stardate import datetimeToJulianDate
        from resonaate.physics.transforms.methods import eci2ecef

        S, step, _out, _n = time_info(case)
        jd0 = float(datetimeToJulianDate(S))
        return {"when": lambda jd: S + _dt.timedelta(seconds=round((jd - jd0) * 86400.0 / step) * step),
                "ecef": lambda x, when: eci2ecef(np.asarray(x, dtype=float), when)}

    def shrink_candidates(self, case, violation):
        if case["kind"] == "order" and violation.get("schedule") and case.get("alts") != [violation["schedule"]]:
            yield variant(case, "only-failing-schedule", lambda c: c.__setitem__("alts", [violation["schedule"]]))
        if case["kind"] == "repr" and len(case["variants"]) > 1:
            for i in range(len(case["variants"])):
                yield variant(case, f"drop-variant-{i}", lambda c, i=i: c["variants"].pop(i))
        for c in generic_shrinks(case):
            if c.get("_shrunk_by") != "fifo":
                yield c
        e = case["config"]["engines"][0]
        if len(e["targets"]) > 1:
            for t in e["targets"]:
                yield variant(case, f"drop-target-{t['id']}", lambda c, tid=t["id"]: c["config"]["engines"][0].__setitem__("targets", [x for x in c["config"]["engines"][0]["targets"] if x["id"] != tid]))
        if len(e["sensors"]) > 1:
            for s in e["sensors"]:
                yield variant(case, f"drop-sensor-{s['id']}", lambda c, sid=s["id"]: c["config"]["engines"][0].__setitem__("sensors", [x for x in c["config"]["engines"][0]["sensors"] if x["id"] != sid]))


CHECK = C16()
