"""C07 - tasking decisions are feasible and optimal in the sense each policy documents.

Run-time invariants at the semantic endpoints of every engine assessment of real runs
(``Decision.calculate`` inputs/outputs, ``Reward.calculate``, metric normalisation, executed task
jobs, stored task rows), judged by brute force over all complete assignments (<= 5 x 4), plus a
relabelled twin run (agent ids permuted) whose decisions must be the relabelled decisions.
"""

from __future__ import annotations

import copy
import datetime as dt
import random

import numpy as np

from .. import gen
from ..core import Check, jdigest, result_template
from ..oracles import decisions as dec
from ..run import fmt_ts, parse_ts
from . import sched
from .common import generic_shrinks, time_info, variant


def relabel(cfg: dict, tmap: dict, smap: dict) -> dict:
    import json

    c = json.loads(json.dumps(cfg))  # also breaks aliasing between engines that share target dicts
    for e in c["engines"]:
        for t in e["targets"]:
            t["id"] = tmap[t["id"]]
            t["name"] = f"T{t['id']}"
        for s in e["sensors"]:
            s["id"] = smap[s["id"]]
            s["name"] = f"S{s['id']}"
    for ev in c.get("events", []):
        if ev["event_type"] == "task_priority":
            ev["target_id"] = tmap[ev["target_id"]]
            ev["target_name"] = f"T{ev['target_id']}"
        elif ev["event_type"] == "agent_removal":
            ev["agent_id"] = tmap.get(ev["agent_id"], smap.get(ev["agent_id"], ev["agent_id"]))
    return c


class C07(Check):
    pid = "C07"
    level = "exploration"
    quick_budget_s = 60.0
    thorough_budget_s = 900.0
    per_run_timeout_s = 300.0
    rule = ("case = small network scenario with one of the four policies and any reward/metric combination, optionally membership changes and task priorities, "
            "plus (noise-off cases) a twin with permuted agent ids; every Decision.calculate / Reward.calculate call of the run is judged; "
            "non-trivial = at least one decision with >= 1 visible pair was judged; distinct = digest of the configuration")
    assumptions = [
        "assignment policy: accepted if the decision equals (A & visibility) for some maximum-total complete assignment A of the reward matrix given to the policy, or of that matrix masked by visibility (rewards of invisible pairs are zero in runs, so both coincide)",
        "ties accepted at 1e-12 relative; relabelled twins compared only while the optimum is unique by a 1e-9 relative margin",
        "matrix shapes are those runs produce (<= 5 targets x 4 sensors); exhaustive small-scope enumeration of arbitrary matrices is out of this technique's family",
    ]
    real_components = ["CentralizedTaskingEngine.assess", "all Decision policies", "all Reward classes and metrics", "asyncCalculateReward / predictObservation / UKF forecast", "task execution jobs", "tasks table"]
    stub_components = ["ray (rsim.simray, seeded schedule)"]

    def setup(self, tier):
        sched.install()

    def gen(self, rng: random.Random, tier: str, index: int) -> dict:
        decision = rng.choice(["MunkresDecision", "MunkresDecision", "MyopicNaiveGreedyDecision", "MyopicNaiveGreedyDecision", "RandomDecision", "AllVisibleDecision"])
        cfg = gen.network_case(rng, nsteps=rng.randrange(2, 5), n_sensors=rng.randrange(1, 5), n_targets=rng.randrange(1, 6), decision=decision,
                               coarse=rng.random() < 0.6, model="two_body", out_mult=1, two_engines_p=0.25, geo_p=0.7, placed_p=0.9, space_sensor_p=0.1,
                               kinds=("radar", "adv_radar", "optical") if rng.random() < 0.3 else ("radar", "adv_radar"))
        S, step, out, ncfg = time_info({"config": cfg})
        events = []
        eng = rng.choice(cfg["engines"])
        tids = [t["id"] for t in eng["targets"]]
        if rng.random() < 0.3:
            events.append({"scope": "task_reward_generation", "scope_instance_id": eng["unique_id"], "event_type": "task_priority",
                           "start_time": fmt_ts(S + dt.timedelta(seconds=step * rng.randrange(0, ncfg))), "end_time": fmt_ts(S + dt.timedelta(seconds=step * ncfg)),
                           "target_id": rng.choice(tids), "target_name": "x", "priority": rng.choice([0.1, 3.0, 10.0, -1.0]), "is_dynamic": False})
            events[-1]["target_name"] = f"T{events[-1]['target_id']}"
        only_here = [t for t in tids if sum(t in [x["id"] for x in e2["targets"]] for e2 in cfg["engines"]) == 1]
        busy = {e.get("target_id") for e in events}
        cands = [t for t in only_here if t not in busy]
        if len(tids) > 1 and cands and rng.random() < 0.25 and ncfg >= 2:
            events.append({"scope": "scenario_step", "scope_instance_id": 0, "event_type": "agent_removal", "start_time": fmt_ts(S + dt.timedelta(seconds=step * rng.randrange(1, ncfg))),
                           "tasking_engine_id": eng["unique_id"], "agent_id": rng.choice(cands), "agent_type": "target"})
        if rng.random() < 0.2 and ncfg >= 2:
            orb = gen.draw_orbit(rng, "geo")
            events.append({"scope": "scenario_step", "scope_instance_id": 0, "event_type": "target_addition", "start_time": fmt_ts(S + dt.timedelta(seconds=step * rng.randrange(1, ncfg))),
                           "tasking_engine_id": eng["unique_id"], "target_agent": gen.eci_target(10000 + rng.randrange(1, 9) * 1000 + 777, orb["pos"], orb["vel"])})
        cfg["events"] = events
        twin = rng.random() < 0.6 and decision != "RandomDecision"
        case = {"config": cfg, "plan": [{"seconds": ncfg * step}], "schedule": {"name": "seeded", "seed": rng.randrange(2**31)}, "job_seed": rng.randrange(2**31),
                "noise": "off" if twin else "on"}
        if twin:
            all_t = sorted({t["id"] for e in cfg["engines"] for t in e["targets"]})
            all_s = sorted({s["id"] for e in cfg["engines"] for s in e["sensors"]})
            pt, ps = all_t[:], all_s[:]
            rng.shuffle(pt)
            rng.shuffle(ps)
            case["relabel"] = {"targets": dict(zip(map(str, all_t), pt)), "sensors": dict(zip(map(str, all_s), ps))}
        return case

    def sample_view(self, case):
        return {"time": case["config"]["time"], "engines": [{"decision": e["decision"]["name"], "reward": e["reward"], "n_sensors": len(e["sensors"]), "n_targets": len(e["targets"])}
                                                             for e in case["config"]["engines"]],
                "events": [e["event_type"] for e in case["config"].get("events", [])], "relabel": case.get("relabel")}

    def run(self, case: dict) -> dict:
        res = result_template()
        viol, cnt = res["violations"], res["counters"]
        res["key"] = jdigest(case["config"])
        base = sched.observe(case, isolate=True)
        if base["error"]:
            name = base["error"].split(":")[0]
            cnt[f"aborted_{name}"] = 1
        judged = 0
        for k in sorted(base["steps"]):
            st = base["steps"][k]
            for eid, din in st.get("decision_in", {}).items():
                dout = st.get("decision_out", {}).get(eid)
                if dout is None:
                    continue
                R, V, D = np.asarray(din["reward"], dtype=float), np.asarray(din["visibility"], dtype=bool), np.asarray(dout, dtype=bool)
                pol = din["policy"]
                if R.shape == V.shape and not np.all(np.isfinite(R[V])):
                    cnt["reward_not_finite"] = cnt.get("reward_not_finite", 0) + 1
                    continue
                where = f"step {k} engine {eid} policy {pol} reward {R.tolist()} visibility {V.astype(int).tolist()} decision {D.astype(int).tolist()}"
                if D.shape != V.shape or R.shape != V.shape:
                    viol.append({"clause": "shape", "key": pol, "detail": where})
                    continue
                if np.any(D & ~V):
                    viol.append({"clause": "tasked-invisible-pair", "key": pol, "detail": where})
                if pol != "AllVisibleDecision" and D.sum(axis=0).max(initial=0) > 1:
                    viol.append({"clause": "sensor-tasked-twice", "key": pol, "detail": where})
                err, tie, margin = dec.POLICIES[pol](R, V, D)
                if err:
                    viol.append({"clause": "policy-optimality", "key": pol, "detail": f"{err}: {where}"})
                judged += int(V.any())
                cnt[f"decisions_{pol}"] = cnt.get(f"decisions_{pol}", 0) + 1
                if tie:
                    cnt["decisions_with_tie"] = cnt.get("decisions_with_tie", 0) + 1
                if (R < 0).any():
                    cnt["decisions_with_negative_reward"] = cnt.get("decisions_with_negative_reward", 0) + 1
                if V.any() and not V.all():
                    cnt["decisions_with_partial_visibility"] = cnt.get("decisions_with_partial_visibility", 0) + 1
                st.setdefault("margin", {})[eid] = margin
                # the decision stored by the engine and the executed jobs are checked in bookkeeping()
                eng = st["engines"].get(eid)
                if eng is not None and not np.array_equal(eng["decision"], D):
                    viol.append({"clause": "engine-decision-differs", "key": pol, "detail": f"engine stores a decision different from what the policy returned: {where}"})
            for eid, rc in st.get("reward_calc", {}).items():
                M = np.asarray(rc["metrics"], dtype=float)
                if M.ndim != 3:
                    continue
                # the engine works with the policy, reward and metrics it was configured with (in the configured order)
                econf = next((e for e in case["config"]["engines"] if e["unique_id"] == eid), None)
                if econf is not None:
                    din0 = st.get("decision_in", {}).get(eid)
                    got = (None if din0 is None else din0["policy"], rc["reward_cls"], list(rc["names"]))
                    want = (econf["decision"]["name"] if din0 is not None else None, econf["reward"]["name"], [m["name"] for m in econf["reward"]["metrics"]])
                    if got != want:
                        viol.append({"clause": "engine-differs-from-its-configuration", "key": "policy/reward/metrics", "detail": f"step {k} engine {eid}: configured {want}, running {got}"})
                        continue
                ref = dec.reference_reward(rc["reward_cls"], rc["names"], M, rc["delta"])
                val = np.asarray(rc["value"], dtype=float).reshape(M.shape[0], M.shape[1])
                if ref is not None:
                    cnt[f"rewards_{rc['reward_cls']}"] = cnt.get(f"rewards_{rc['reward_cls']}", 0) + 1
                    if not np.allclose(val, ref, rtol=1e-12, atol=1e-15, equal_nan=True):
                        viol.append({"clause": "reward-formula", "key": rc["reward_cls"],
                                     "detail": f"step {k} engine {eid}: {rc['reward_cls']} over metrics {rc['names']} returned {val.tolist()}, documented formula gives {ref.tolist()}"})
                raw = st.get("metrics_raw", {}).get(eid)
                if raw is not None and np.asarray(raw["metrics"]).shape == M.shape:
                    RAW = np.asarray(raw["metrics"], dtype=float)
                    for mi, name in enumerate(rc["names"]):
                        if not np.all(np.isfinite(RAW[..., mi])):
                            # a metric that is not a number (e.g. the log of a ratio of covariance determinants that underflowed or came out negative):
                            # numerical breakdown of the filter, the statement's matrices are finite
                            cnt["metric_not_finite"] = cnt.get("metric_not_finite", 0) + 1
                            continue
                        mx = float(RAW[..., mi].max()) if RAW[..., mi].size else 0.0
                        want = RAW[..., mi] / mx if mx > 0 else RAW[..., mi]
                        if not np.allclose(M[..., mi], want, rtol=1e-12, atol=0) or (M[..., mi].size and float(M[..., mi].max()) > 1 + 1e-12):
                            viol.append({"clause": "metric-normalisation", "key": name,
                                         "detail": f"step {k} engine {eid}: metric {name} raw {RAW[..., mi].tolist()} normalised to {M[..., mi].tolist()}"})
        sched.bookkeeping(base, viol, cnt, case["config"]["observation"]["background"])
        # stored task rows equal the matrices
        if not base["error"] and base["db"].get("tasks") is not None:
            rows = {}
            for jd, tid, sid, vis, decn, rew in base["db"]["tasks"]:
                rows.setdefault(float(jd).hex(), {})[(tid, sid)] = (bool(vis), bool(decn), rew)
            per_step = {}
            for k in sorted(base["steps"]):
                st = base["steps"][k]
                if k == 0 or not st.get("complete") or not st["engines"]:
                    continue
                per_step[k] = st
            if len(rows) not in (len(per_step), len(per_step) + 1):
                viol.append({"clause": "task-rows", "key": "epochs", "detail": f"tasks table covers {len(rows)} epochs, run assessed {len(per_step)} steps"})
            else:
                for (jdh, pairs), (k, st) in zip(sorted(rows.items(), key=lambda kv: float.fromhex(kv[0]))[-len(per_step):], sorted(per_step.items())):
                    for eid, eng in st["engines"].items():
                        for ti, tid in enumerate(eng["targets"]):
                            for si, sid in enumerate(eng["sensors"]):
                                got = pairs.get((tid, sid))
                                want = (bool(eng["visibility"][ti, si]), bool(eng["decision"][ti, si]), float(eng["reward"][ti, si]))
                                gr = float("nan") if got is None or got[2] is None else float(got[2])
                                if got is None or got[0] != want[0] or got[1] != want[1] or not np.isclose(gr, want[2], rtol=1e-12, atol=0, equal_nan=True):
                                    viol.append({"clause": "task-rows", "key": "values", "detail": f"step {k} engine {eid} pair ({tid},{sid}): stored {got}, engine matrices {want}"})
                                    break
        # relabelled twin
        if case.get("relabel") and not base["error"] and not viol:
            tmap = {int(a): b for a, b in case["relabel"]["targets"].items()}
            smap = {int(a): b for a, b in case["relabel"]["sensors"].items()}
            for ev in case["config"].get("events", []):
                if ev["event_type"] == "target_addition":
                    tmap.setdefault(ev["target_agent"]["id"], ev["target_agent"]["id"])
            c2 = dict(case)
            c2["config"] = relabel(case["config"], tmap, smap)
            twin = sched.observe(c2, isolate=True)
            if twin["error"]:
                cnt["twin_aborted"] = 1
            else:
                stop = False
                for k in sorted(base["steps"]):
                    if stop:
                        break
                    b, t = base["steps"][k], twin["steps"].get(k)
                    if k == 0 or t is None:
                        continue
                    for eid, be in b["engines"].items():
                        te = t["engines"].get(eid)
                        m = b.get("margin", {}).get(eid)
                        if te is None or m is None or not (m > 1e-9):
                            cnt["relabel_stopped_at_tie"] = cnt.get("relabel_stopped_at_tie", 0) + 1
                            stop = True
                            break
                        mismatch = None
                        # the statement is about the decision for given matrices: is the twin's reward matrix the relabelled base matrix?
                        try:
                            rows = [te["targets"].index(tmap[tid]) for tid in be["targets"]]
                            cols = [te["sensors"].index(smap[sid]) for sid in be["sensors"]]
                            same_inputs = bool(np.allclose(te["reward"][np.ix_(rows, cols)], be["reward"], rtol=1e-9, atol=1e-12, equal_nan=True))
                        except (ValueError, KeyError):
                            same_inputs = True     # reported below as a missing image
                        if not same_inputs:
                            # the inputs differ: legitimate only if the two runs' states already differ - by the rounding that stacking the same
                            # observations in another order (sensor ids sort differently) leaves in an estimate, which normalising a numerically
                            # zero metric by its maximum can blow up to order one.  With bit-identical states before the step it is a violation.
                            bp, tp = base["steps"].get(k - 1, {}), twin["steps"].get(k - 1, {})
                            same_state = all(tmap.get(tid) in tp.get("estimates", {}) and np.array_equal(x, tp["estimates"][tmap[tid]][0]) and np.array_equal(pm, tp["estimates"][tmap[tid]][1])
                                             for tid, (x, pm) in bp.get("estimates", {}).items())
                            same_state = same_state and all(tp.get("pointing", {}).get(smap.get(sid)) == v for sid, v in bp.get("pointing", {}).items())
                            if k >= 2 and not same_state:
                                cnt["relabel_stopped_at_rounding_difference_in_state"] = cnt.get("relabel_stopped_at_rounding_difference_in_state", 0) + 1
                                stop = True
                                break
                            viol.append({"clause": "relabelling-changes-reward", "key": str(st_policy(b, eid)),
                                         "detail": f"step {k} engine {eid}: estimates and sensor pointing before the step are bit-identical under the relabelling, but the reward matrix is not the relabelled one: "
                                                   f"base {be['reward'].tolist()} (targets {be['targets']}, sensors {be['sensors']}), relabelled run {te['reward'].tolist()} (targets {te['targets']}, sensors {te['sensors']})"})
                            stop = True
                            break
                        for ti, tid in enumerate(be["targets"]):
                            for si, sid in enumerate(be["sensors"]):
                                try:
                                    tj, sj = te["targets"].index(tmap[tid]), te["sensors"].index(smap[sid])
                                except (ValueError, KeyError):
                                    mismatch = f"pair ({tid},{sid}) has no image in the relabelled run"
                                    break
                                if be["decision"][ti, si] != te["decision"][tj, sj] or be["visibility"][ti, si] != te["visibility"][tj, sj]:
                                    mismatch = f"pair ({tid},{sid}) -> ({tmap[tid]},{smap[sid]}): decision {bool(be['decision'][ti, si])}/{bool(te['decision'][tj, sj])} visibility {bool(be['visibility'][ti, si])}/{bool(te['visibility'][tj, sj])}"
                                    break
                            if mismatch:
                                break
                        if mismatch:
                            viol.append({"clause": "relabelling-changes-decision", "key": str(st_policy(b, eid)),
                                         "detail": f"step {k} engine {eid}: {mismatch}; base reward {be['reward'].tolist()} (unique optimum, margin {m:.2e}), relabelled reward {te['reward'].tolist()}"})
                            stop = True
                            break
                        cnt["relabel_decisions_compared"] = cnt.get("relabel_decisions_compared", 0) + 1
                    per = {}
                    for j in b["jobs"]:
                        for sid, bs, tlt in j["sensor_info"]:
                            per.setdefault(sid, set()).add((bs, tlt))
                    if any(len(v) > 1 for v in per.values()):
                        # a sensor served several task jobs with different pointings: which one it keeps is the
                        # C08 known finding F11 (depends on job order, which relabelling changes) - stop here
                        cnt["relabel_stopped_at_multi_job_sensor"] = cnt.get("relabel_stopped_at_multi_job_sensor", 0) + 1
                        stop = True
        res["nontrivial"] = judged > 0
        cnt["decisions_judged_with_visible_pair"] = judged
        res["sim_seconds"] = float(sum(1 for s in base["steps"].values() if s.get("complete")) * (base.get("step_dt") or 0))
        res["interleaving"] = jdigest(base["batches"])
        res["digest"] = jdigest([viol, cnt, res["interleaving"]])
        return res

    def shrink_candidates(self, case, violation):
        if case.get("relabel") and violation["clause"] != "relabelling-changes-decision":
            yield variant(case, "no-twin", lambda c: c.pop("relabel"))
        yield from generic_shrinks(case)
        cfg = case["config"]
        used = {e.get("target_id") for e in cfg.get("events", [])} | {e.get("agent_id") for e in cfg.get("events", [])}
        for ei, e in enumerate(cfg["engines"]):
            if len(e["targets"]) > 1:
                for t in e["targets"]:
                    if t["id"] not in used:
                        def drop_t(c, ei=ei, tid=t["id"]):
                            c["config"]["engines"][ei]["targets"] = [x for x in c["config"]["engines"][ei]["targets"] if x["id"] != tid]
                            if c.get("relabel") and not any(tid == x["id"] for e2 in c["config"]["engines"] for x in e2["targets"]):
                                img = c["relabel"]["targets"].pop(str(tid))
                                for k2, v2 in c["relabel"]["targets"].items():
                                    if v2 == tid:
                                        c["relabel"]["targets"][k2] = img
                        yield variant(case, f"drop-target-{t['id']}", drop_t)
            if len(e["sensors"]) > 1:
                for s in e["sensors"]:
                    def drop_s(c, ei=ei, sid=s["id"]):
                        c["config"]["engines"][ei]["sensors"] = [x for x in c["config"]["engines"][ei]["sensors"] if x["id"] != sid]
                        if c.get("relabel"):
                            img = c["relabel"]["sensors"].pop(str(sid))
                            for k2, v2 in c["relabel"]["sensors"].items():
                                if v2 == sid:
                                    c["relabel"]["sensors"][k2] = img
                    yield variant(case, f"drop-sensor-{s['id']}", drop_s)


def st_policy(step_rec, eid):
    return step_rec.get("decision_in", {}).get(eid, {}).get("policy")


CHECK = C07()
