"""C02 - reported observations satisfy all sensor constraints; misses state a true reason.

Full runs (tasking on) over all sensor kinds, ground and space hosts, masks (including ones that
wrap through north), conic / rectangular fields of view, slew rates from "cannot reach" to "always
reaches", range limits and targets placed by inverse geometry on the azimuth seam, at the zenith,
at mask and FoV edges.  Slew state is built by the previous steps of the run itself.  At every
``Sensor.collectObservations`` call the sensor (state *before* the call), the commanded pointing,
the primary and background targets and the returned records are captured and judged by
rsim.oracles.visibility (three-valued, with guard bands).
"""

from __future__ import annotations

import datetime as dt
import math
import random

import numpy as np

from .. import gen, probes, simray
from ..core import Check, jdigest, result_template
from ..oracles import geom, visibility
from ..run import cleanup, history_digest, wrap_method
from .common import drive, generic_shrinks, interleaving_key, over, raised_in_harness, time_info, variant

MEAS_TOL = {"azimuth_rad": 1e-7, "elevation_rad": 1e-7, "range_km": 1e-6, "range_rate_km_p_sec": 1e-9}


def install_sensor_probe():
    from resonaate.sensors.sensor_base import Sensor

    def view(sensor):
        host = sensor.host
        fov = sensor.field_of_view
        return {
            "id": host.simulation_id, "kind": type(sensor).__name__, "eci": np.array(host.eci_state, dtype=float).copy(), "time": float(host.time), "datetime": host.datetime_epoch,
            "boresight": np.array(sensor.boresight, dtype=float).copy(), "last_tasked": float(sensor.time_last_tasked), "slew_rate": float(sensor.slew_rate),
            "az_mask": [float(x) for x in sensor.az_mask], "el_mask": [float(x) for x in sensor.el_mask],
            "fov": ({"shape": "conic", "cone": float(fov.cone_angle)} if type(fov).__name__ == "ConicFoV" else {"shape": "rect", "az": float(fov.azimuth_angle), "el": float(fov.elevation_angle)}),
            "min_range": None if sensor.minimum_range is None else float(sensor.minimum_range), "max_range": None if sensor.maximum_range is None else float(sensor.maximum_range),
            "background": bool(sensor.calculate_background), "space": str(getattr(host.agent_type, "value", host.agent_type)) == "spacecraft", "bias": bool(host.sensor_time_bias_event_queue),
            "tx_power": getattr(sensor, "tx_power", None), "tx_frequency": getattr(sensor, "tx_frequency", None), "min_power": getattr(sensor, "min_detectable_power", None),
            "diameter": float(sensor.aperture_diameter), "efficiency": float(sensor.efficiency), "vismag": getattr(sensor, "detectable_vismag", None),
            "r_diag": [float(x) for x in np.diag(sensor.r_matrix)], "labels": list(sensor.measurement.labels),
        }

    def tview(t):
        return {"id": t.simulation_id, "eci": np.array(t.eci_state, dtype=float).copy(), "vcs": float(t.visual_cross_section), "refl": float(t.reflectivity)}

    def before(self, estimate_eci, target_agent, background_agents, *a, **k):
        return {"sensor": view(self), "estimate": np.array(estimate_eci, dtype=float).copy(), "primary": tview(target_agent), "background": [tview(t) for t in background_agents],
                "direct": probes.STATE.get("direct") or False}

    def after(self, tok, res, *a, **k):
        obs, missed, boresight, tlt = res

        def okey(o):
            return {"target": int(o.target_id), "sensor": int(o.sensor_id), "values": {lab: float(getattr(o, lab)) for lab in tok["sensor"]["labels"]}}

        probes.rec("collect", **tok, obs=[okey(o) for o in obs], missed=[{"target": int(m.target_id), "sensor": int(m.sensor_id), "reason": str(m.reason)} for m in missed],
                   ret_boresight=np.array(boresight, dtype=float).copy(), ret_last_tasked=float(tlt))

    wrap_method(Sensor, "collectObservations", before=before, after=after)


class C02(Check):
    pid = "C02"
    level = "exploration"
    quick_budget_s = 75.0
    thorough_budget_s = 1200.0
    per_run_timeout_s = 300.0
    rule = ("case = small network run (optical / radar / adv-radar, ground and space hosts, drawn masks, FoVs, slew rates, ranges, placed targets; noise on or off; background on or off); "
            "0-8 further taskings issued by the harness itself at the final epoch (any sensor to any target, pointing at the truth, near it, at another target or far off); every collectObservations call is judged; non-trivial = >= 1 call judged; distinct = digest of the configuration")
    assumptions = [
        "the repo's IAU-76/FK5 eci2ecef is used by the harness at the exact epoch computed by integer arithmetic (C04 is about the transform itself); everything downstream (geodetic latitude, SEZ basis, az/el/range/range-rate, FoV, masks, slew, line of sight, radar equation, optical rules) is rsim's own",
        "three-valued predicates: within 1e-6 rad / 1e-6 km of a limit the oracle abstains; 5e-4 rad where its low-precision analytic Sun enters; abstentions are counted as indeterminate",
        "rectangular field of view = |wrapped azimuth difference| and |elevation difference| against half the configured angles (the repo's definition with the wrap the property demands); not judged within 0.1 deg of the zenith",
        "noise-on measurements must lie within 8 sigma of the sensor's stated covariance",
        "sensor time-bias events are not generated here (a biased clock reports the target where it is at another instant by design)",
    ]
    real_components = ["Sensor.collectObservations / canSlew / attemptObservation / isVisible (Optical, Radar, AdvRadar)", "FieldOfView classes", "physics.sensor_utils", "physics.measurements", "Observation.fromMeasurement",
                       "tasking engine + task execution jobs (slew history)", "transforms (getSlantRangeVector)"]
    stub_components = ["ray (rsim.simray)", "numpy.random.randn (zeros) in the noise-off profile"]

    def setup(self, tier):
        probes.install_step_recorder()
        install_sensor_probe()

    def gen(self, rng: random.Random, tier: str, index: int) -> dict:
        kinds = rng.choice([("optical", "radar", "adv_radar"), ("radar", "adv_radar"), ("optical",), ("optical", "adv_radar")])
        cfg = gen.network_case(rng, nsteps=rng.randrange(2, 6), n_sensors=rng.randrange(1, 5), n_targets=rng.randrange(1, 6), kinds=kinds, model="two_body",
                               coarse=rng.random() < 0.5, space_sensor_p=0.3, geo_p=0.55, placed_p=0.9, two_engines_p=0.15, out_mult=1, narrow_fov=rng.random() < 0.2,
                               slow_slew=rng.random() < 0.3, edge_p=0.4)
        if rng.random() < 0.4:
            # estimate errors of kilometres so that the estimate and the truth can sit on opposite sides of a limit
            cfg["noise"]["init_position_std_km"] = rng.choice([1.0, 5.0, 20.0])
            cfg["noise"]["init_velocity_std_km_p_sec"] = rng.choice([1e-4, 1e-3])
            for e in cfg["engines"]:
                for s in e["sensors"]:
                    s["sensor"]["covariance"] = gen.sensor_block(s["sensor"]["type"], coarse=True)["covariance"]
        for e in cfg["engines"]:
            for s in e["sensors"]:
                if s["sensor"]["type"] == "optical" and rng.random() < 0.7:
                    s["sensor"]["detectable_vismag"] = rng.choice([30.0, 25.0, 16.0, 12.0])
        S, step, out, ncfg = time_info({"config": cfg})
        # space-based optical sensors: put a target close to the Sun / anti-Sun line of sight (exclusion cone edges, limb)
        for e in cfg["engines"]:
            for s in e["sensors"]:
                if s["platform"]["type"] == "spacecraft" and s["sensor"]["type"] == "optical" and rng.random() < 0.6 and e["targets"]:
                    from ..oracles import kepler

                    k = rng.randrange(0, ncfg + 1)
                    xs = kepler.propagate(np.array(s["state"]["position"] + s["state"]["velocity"], dtype=float), k * step)
                    sun = visibility.sun_position(S + dt.timedelta(seconds=k * step))
                    if rng.random() < 0.6:
                        u = (sun - xs[:3]) / np.linalg.norm(sun - xs[:3]) * rng.choice([1.0, -1.0])
                        ang = math.radians(rng.choice([rng.uniform(0, 14), rng.uniform(14, 16), rng.uniform(16, 30)]))
                    else:
                        # line of sight near the galactic centre (6 deg exclusion cone): inside, on the edge, just outside - and far enough off that
                        # the target's *geocentric* direction can be inside the cone while the line of sight is not
                        u = np.array([math.cos(visibility.GAL_DEC) * math.cos(visibility.GAL_RA), math.cos(visibility.GAL_DEC) * math.sin(visibility.GAL_RA), math.sin(visibility.GAL_DEC)])
                        ang = math.radians(rng.choice([rng.uniform(0, 5.5), rng.uniform(5.5, 6.5), rng.uniform(6.5, 12), rng.uniform(12, 40)]))
                    perp = np.cross(u, np.array([0.3, 0.5, 0.8]))
                    perp /= np.linalg.norm(perp)
                    d = math.cos(ang) * u + math.sin(ang) * perp
                    xt = np.concatenate([xs[:3] + d * rng.uniform(300, 4000), xs[3:]])
                    r = float(np.linalg.norm(xt[:3]))
                    if gen.RE + 300 < r < gen.RE + 40000:
                        vdir = np.cross(np.cross(xt[:3], xt[3:]), xt[:3])
                        xt[3:] = vdir / np.linalg.norm(vdir) * math.sqrt(kepler.MU / r)
                        x0 = kepler.propagate(xt, -k * step)
                        t = rng.choice(e["targets"])
                        t["state"]["position"], t["state"]["velocity"] = [float(v) for v in x0[:3]], [float(v) for v in x0[3:]]
        # a further sensor joins through an event (its parameters travel through the event table, not the configuration objects)
        if rng.random() < 0.25 and ncfg >= 2:
            eng = rng.choice(cfg["engines"])
            all_vis = eng["decision"]["name"] == "AllVisibleDecision"
            kind = "adv_radar" if all_vis else rng.choice(["optical", "radar", "adv_radar"])
            blk = gen.draw_sensor_block(rng, kind, coarse=rng.random() < 0.5, narrow_fov=False, slow_slew=rng.random() < 0.3)
            ground = [s0 for s0 in eng["sensors"] if s0["platform"]["type"] == "ground_facility"]
            if ground and rng.random() < 0.7:
                b = rng.choice(ground)["state"]
                agent = gen.ground_sensor(95001, max(-89.0, min(89.0, b["latitude"] + rng.uniform(-0.05, 0.05))), b["longitude"], b["altitude"], blk)
            else:
                orb = gen.draw_orbit(rng, rng.choice(["leo", "meo", "geo"]))
                blk["elevation_range"] = [-89.9, 89.9]
                agent = gen.space_sensor(95001, orb["pos"], orb["vel"], blk)
            cfg.setdefault("events", []).append({"scope": "scenario_step", "scope_instance_id": 0, "event_type": "sensor_addition",
                                                 "start_time": gen.fmt_ts(S + dt.timedelta(seconds=step * rng.randrange(1, ncfg))), "tasking_engine_id": eng["unique_id"], "sensor_agent": agent})
        # direct taskings issued by the harness after the run (it plays the tasking engine): any sensor to any target, whether or not it can see it
        direct = []
        if rng.random() < 0.6:
            for _ in range(rng.randrange(1, 9)):
                direct.append({"sensor": rng.random(), "target": rng.random(), "pointing": rng.choice(["truth", "truth", "near", "near", "other", "far"]),
                               "offset": [rng.gauss(0, 1) for _ in range(3)], "scale": rng.choice([0.2, 1.0, 3.0]), "background": rng.random() < 0.7,
                               # prior mount state, set the way the engine sets it after a tasking: seconds since the last tasking and where it was left
                               "preset": None if rng.random() < 0.3 else {"since": rng.choice([0.0, 1.0, 60.0, 600.0, 1e5]), "boresight": rng.choice([None, [rng.gauss(0, 1) for _ in range(3)]])}})
        return {"config": cfg, "plan": [{"seconds": ncfg * step}], "schedule": {"name": "seeded", "seed": rng.randrange(2**31)}, "job_seed": rng.randrange(2**31),
                "noise": rng.choice(["off", "off", "on"]), "direct": direct}

    def sample_view(self, case):
        c = case["config"]
        return {"time": c["time"], "noise": case["noise"], "background": c["observation"]["background"],
                "sensors": [{"id": s["id"], "type": s["sensor"]["type"], "host": s["platform"]["type"], "fov": s["sensor"].get("field_of_view"), "az": s["sensor"]["azimuth_range"],
                             "el": s["sensor"]["elevation_range"], "slew": s["sensor"]["slew_rate"]} for e in c["engines"] for s in e["sensors"]],
                "targets": len({t["id"] for e in c["engines"] for t in e["targets"]})}

    def run(self, case: dict) -> dict:  # noqa: C901, PLR0912, PLR0915
        res = result_template()
        viol, cnt = res["violations"], res["counters"]
        res["key"] = jdigest(case["config"])
        S, step, out, ncfg = time_info(case)
        noise_off = case.get("noise") == "off"
        ctx = drive(case)
        try:
            if ctx.error is not None:
                if raised_in_harness(ctx.error):
                    raise ctx.error
                cnt["aborted_" + type(ctx.error).__name__] = 1
            elif case.get("direct") and ctx.app is not None:
                self._direct_phase(ctx.app, case["direct"])
            from resonaate.physics.transforms.methods import eci2ecef

            max_meas = {}
            # what each sensor was configured with, converted by the harness (degrees -> radians); sensors that joined through an event included
            configured = {s0["id"]: s0["sensor"] for e in case["config"]["engines"] for s0 in e["sensors"]}
            configured.update({ev["sensor_agent"]["id"]: ev["sensor_agent"]["sensor"] for ev in case["config"].get("events", []) if ev["event_type"] == "sensor_addition"})
            fidelity_done = set()
            # rsim's own record of where each sensor points and when it last slewed: {sensor: (step, [(boresight, time), ...])}
            book = {}
            pending = {}
            for r in probes.of_kind("collect"):
                sen = r["sensor"]
                if sen["bias"]:
                    continue
                k = r["step"]
                when = S + dt.timedelta(seconds=k * step)
                if sen["datetime"] != when or abs(sen["time"] - k * step) > 1e-6:
                    viol.append({"clause": "sensor-epoch", "key": "datetime", "detail": f"step {k}: sensor {sen['id']} works at {sen['datetime']} / t={sen['time']}, the epoch is {when}"})
                    continue
                ecef_of = lambda x, when=when: eci2ecef(np.asarray(x, dtype=float), when)  # noqa: E731
                # the state the sensor starts this call with must be what rsim's own bookkeeping says it was left in
                # by its last tasking (any of them when several jobs of one step tasked it, see C08 finding F11)
                for sid0, (k0, lst) in list(pending.items()):
                    if k0 < k or (r.get("direct") and sid0 == sen["id"]):
                        book[sid0] = lst
                        del pending[sid0]
                if r.get("direct"):
                    cnt["direct_taskings"] = cnt.get("direct_taskings", 0) + 1
                    if r["direct"] == "preset":      # the harness set the prior mount state itself
                        book.pop(sen["id"], None)
                if sen["id"] in book:
                    ok_state = any(float(np.linalg.norm(np.asarray(b) - sen["boresight"])) <= 1e-9 and abs(t - sen["last_tasked"]) <= 1e-9 for b, t in book[sen["id"]])
                    if not ok_state:
                        viol.append({"clause": "sensor-pointing-state-stale", "key": "boresight/last-tasked",
                                     "detail": f"step {k} sensor {sen['id']}: starts the step with last-tasked time {sen['last_tasked']} and boresight {np.round(sen['boresight'], 6).tolist()}, "
                                               f"but its last tasking left it at {[(np.round(np.asarray(b), 6).tolist(), t) for b, t in book[sen['id']][:2]]}"})
                    else:
                        cnt["slew_state_confirmed"] = cnt.get("slew_state_confirmed", 0) + 1
                cnt["collect_calls"] = cnt.get("collect_calls", 0) + 1
                if sen["id"] in configured and sen["id"] not in fidelity_done:
                    fidelity_done.add(sen["id"])
                    bad = self._fidelity(configured[sen["id"]], sen)
                    cnt["sensors_compared_with_their_configuration"] = cnt.get("sensors_compared_with_their_configuration", 0) + 1
                    if sen["id"] >= 95000:
                        cnt["sensors_added_by_event_judged"] = cnt.get("sensors_added_by_event_judged", 0) + 1
                    if bad:
                        viol.append({"clause": "sensor-differs-from-its-configuration", "key": bad[0][0] + ("/added-by-event" if sen["id"] >= 95000 else ""),
                                     "detail": f"sensor {sen['id']} ({sen['kind']}) works with {', '.join(f'{n} = {got!r} (configured {want!r})' for n, got, want in bad[:4])}"})
                        continue
                cnt[f"calls_{sen['kind']}_{'space' if sen['space'] else 'ground'}"] = cnt.get(f"calls_{sen['kind']}_{'space' if sen['space'] else 'ground'}", 0) + 1
                targets = {r["primary"]["id"]: r["primary"]}
                for b in r["background"]:
                    targets[b["id"]] = b
                where = f"step {k} sensor {sen['id']} ({sen['kind']}, {'space' if sen['space'] else 'ground'}) tasked to {r['primary']['id']}"
                verdicts = {}

                def verdict(tid):
                    if tid not in verdicts:
                        t = targets[tid]
                        verdicts[tid] = visibility.judge(sen, t["eci"], t["vcs"], t["refl"], r["estimate"], ecef_of, when)
                    return verdicts[tid]

                # every reported observation satisfies every constraint
                for o in r["obs"]:
                    if o["target"] not in targets:
                        viol.append({"clause": "observation-of-unknown-target", "key": "target", "detail": f"{where}: observation of {o['target']} which is neither the primary nor a background target"})
                        continue
                    if o["sensor"] != sen["id"]:
                        viol.append({"clause": "observation-wrong-sensor", "key": "sensor", "detail": f"{where}: observation attributed to sensor {o['sensor']}"})
                    if o["target"] != r["primary"]["id"]:
                        cnt["serendipitous_observations"] = cnt.get("serendipitous_observations", 0) + 1
                        if not sen["background"]:
                            viol.append({"clause": "serendipitous-with-background-off", "key": "background", "detail": f"{where}: background observation of {o['target']} although disabled"})
                    v = verdict(o["target"])
                    for name, ok in v.items():
                        if name == "measurement":
                            continue
                        if ok is None:
                            res["indeterminate"] += 1
                        elif ok is False:
                            viol.append({"clause": "observation-violates-constraint", "key": name + ("/serendipitous" if o["target"] != r["primary"]["id"] else "/tasked"),
                                         "detail": f"{where}: reported an observation of target {o['target']} although the constraint '{name}' fails (az {math.degrees(v['measurement']['azimuth_rad']):.4f} deg, "
                                                   f"el {math.degrees(v['measurement']['elevation_rad']):.4f} deg, range {v['measurement']['range_km']:.3f} km; az mask {[round(math.degrees(x), 3) for x in sen['az_mask']]}, "
                                                   f"el mask {[round(math.degrees(x), 3) for x in sen['el_mask']]}, fov {sen['fov']}, slew {sen['slew_rate']:.3e} rad/s x {sen['time'] - sen['last_tasked']} s)"})
                        else:
                            cnt["constraints_confirmed"] = cnt.get("constraints_confirmed", 0) + 1
                    # the measurement itself
                    for lab, val in o["values"].items():
                        ref = v["measurement"][lab]
                        d = abs(geom.wrap_pi(val - ref)) if lab == "azimuth_rad" else abs(val - ref)
                        if noise_off:
                            max_meas[lab] = max(max_meas.get(lab, 0.0), d)
                            if over(d, MEAS_TOL[lab]):
                                viol.append({"clause": "measurement-differs-from-geometry", "key": lab, "detail": f"{where}: noise-free {lab} of target {o['target']} is {val!r}, true geometry gives {ref!r} (difference {d:.3e})"})
                        else:
                            sig = math.sqrt(sen["r_diag"][sen["labels"].index(lab)])
                            if over(d, 8 * sig + MEAS_TOL[lab]):
                                viol.append({"clause": "measurement-outside-stated-noise", "key": lab, "detail": f"{where}: {lab} of target {o['target']} deviates {d:.3e} from the true geometry, stated sigma {sig:.3e}"})
                    if abs(v["measurement"]["azimuth_rad"]) < math.radians(1) or abs(v["measurement"]["azimuth_rad"] - 2 * math.pi) < math.radians(1):
                        cnt["observations_within_1deg_of_azimuth_seam"] = cnt.get("observations_within_1deg_of_azimuth_seam", 0) + 1
                    cnt["observations_judged"] = cnt.get("observations_judged", 0) + 1
                # rsim's bookkeeping for the next step: did the mount slew to the commanded pointing?
                vp = verdict(r["primary"]["id"])
                slew_ok = vp["Slew Rate/Distance to Target"]
                s_ecef0, p_ecef0 = ecef_of(sen["eci"]), ecef_of(r["estimate"])
                _a, _e, _r, _rr, prho0 = visibility.topocentric(s_ecef0, p_ecef0)
                new_state = (prho0 / np.linalg.norm(prho0), sen["time"])
                old_state = (sen["boresight"], sen["last_tasked"])
                options = [new_state] if slew_ok is True else ([old_state] if slew_ok is False else [new_state, old_state])
                if sen["id"] in pending and pending[sen["id"]][0] == k and not r.get("direct"):
                    pending[sen["id"]][1].extend(options)
                else:
                    pending[sen["id"]] = (k, list(options))
                # the primary target: an observation, or exactly one miss whose reason really fails
                pid = r["primary"]["id"]
                n_obs = sum(1 for o in r["obs"] if o["target"] == pid)
                misses = [m for m in r["missed"] if m["target"] == pid]
                if n_obs + len(misses) != 1:
                    viol.append({"clause": "primary-record-count", "key": f"obs={n_obs},miss={len(misses)}", "detail": f"{where}: {n_obs} observations and {len(misses)} miss records for the primary target"})
                extra = [m for m in r["missed"] if m["target"] != pid]
                if extra:
                    viol.append({"clause": "miss-record-for-background-target", "key": "miss", "detail": f"{where}: miss records for non-primary targets {extra[:3]}"})
                for m in misses:
                    v = verdict(pid)
                    ok = v.get(m["reason"], "unknown")
                    cnt[f"miss_{m['reason']}"] = cnt.get(f"miss_{m['reason']}", 0) + 1
                    if ok == "unknown":
                        viol.append({"clause": "miss-reason-not-applicable", "key": m["reason"], "detail": f"{where}: miss reason '{m['reason']}' is not a constraint of this sensor kind"})
                    elif ok is None:
                        res["indeterminate"] += 1
                    elif ok is True:
                        mm = v["measurement"]
                        viol.append({"clause": "miss-reason-does-not-fail", "key": m["reason"],
                                     "detail": f"{where}: missed with reason '{m['reason']}' but that constraint is satisfied (target az {math.degrees(mm['azimuth_rad']):.4f} deg el {math.degrees(mm['elevation_rad']):.4f} deg "
                                               f"range {mm['range_km']:.3f} km; fov {sen['fov']}; az mask {[round(math.degrees(x), 3) for x in sen['az_mask']]}; el mask {[round(math.degrees(x), 3) for x in sen['el_mask']]}; "
                                               f"slew {sen['slew_rate']:.3e} rad/s x {sen['time'] - sen['last_tasked']} s)"})
                    else:
                        cnt["miss_reasons_confirmed"] = cnt.get("miss_reasons_confirmed", 0) + 1
            for lab, d in max_meas.items():
                res["tolerances"][f"noise_free_{lab}"] = [d, MEAS_TOL[lab]]
            res["nontrivial"] = cnt.get("collect_calls", 0) > 0
            res["sim_seconds"] = float(ncfg * step)
            res["interleaving"] = interleaving_key()
            res["faults"]["completion_reorder"] = 1
            res["digest"] = history_digest(ctx, [viol, sorted(cnt.items())])
        finally:
            cleanup(ctx)
        return res

    @staticmethod
    def _fidelity(conf, sen):
        """Parameters of the live sensor vs. its configuration (the harness converts degrees to radians itself)."""
        rad = math.radians
        want = {"az_mask": [rad(v) for v in conf["azimuth_range"]], "el_mask": [rad(v) for v in conf["elevation_range"]], "slew_rate": rad(conf["slew_rate"]),
                "diameter": conf["aperture_diameter"], "efficiency": conf["efficiency"]}
        fov = conf.get("field_of_view")
        if fov is not None:
            want["fov"] = ({"shape": "conic", "cone": rad(fov["cone_angle"])} if fov["fov_shape"] == "conic"
                           else {"shape": "rect", "az": rad(fov["azimuth_angle"]), "el": rad(fov["elevation_angle"])})
        for k_conf, k_obj in (("minimum_range", "min_range"), ("maximum_range", "max_range"), ("tx_power", "tx_power"), ("tx_frequency", "tx_frequency"),
                              ("min_detectable_power", "min_power"), ("detectable_vismag", "vismag")):
            if conf.get(k_conf) is not None:
                want[k_obj] = conf[k_conf]
        bad = []
        for name, w in want.items():
            got = sen.get(name)
            if isinstance(w, dict):
                same = isinstance(got, dict) and got.get("shape") == w["shape"] and all(abs(got.get(q, float("nan")) - w[q]) <= 1e-12 * max(1.0, abs(w[q])) for q in w if q != "shape")
            elif isinstance(w, list):
                same = got is not None and len(got) == len(w) and all(abs(a - b) <= 1e-12 * max(1.0, abs(b)) for a, b in zip(got, w))
            else:
                same = got is not None and abs(float(got) - float(w)) <= 1e-12 * max(1.0, abs(float(w)))
            if not same:
                bad.append((name, got, w))
        return bad

    @staticmethod
    def _direct_phase(app, direct):
        """The harness as tasking engine: task drawn (sensor, target) pairs at the final epoch, visible or not."""
        sensors = [app.sensor_agents[k] for k in sorted(app.sensor_agents)]
        targets = [app.target_agents[k] for k in sorted(app.target_agents)]
        if not sensors or not targets:
            return
        probes.STATE["direct"] = True
        try:
            for d in direct:
                sa = sensors[int(d["sensor"] * len(sensors)) % len(sensors)]
                tgt = targets[int(d["target"] * len(targets)) % len(targets)]
                truth = np.array(tgt.eci_state, dtype=float)
                rng_km = float(np.linalg.norm(truth[:3] - np.asarray(sa.eci_state, dtype=float)[:3]))
                off = np.asarray(d["offset"], dtype=float)
                off = off / (np.linalg.norm(off) or 1.0)
                fov = sa.sensors.field_of_view
                half = float(getattr(fov, "cone_angle", None) or min(fov.azimuth_angle, fov.elevation_angle)) / 2
                point = truth.copy()
                if d["pointing"] == "near":      # pointing error comparable to the half field of view
                    point[:3] += off * rng_km * math.tan(min(half, 1.0)) * d["scale"]
                elif d["pointing"] == "far":
                    point[:3] += off * rng_km * 2.0
                elif d["pointing"] == "other" and len(targets) > 1:
                    point = np.array(targets[(targets.index(tgt) + 1) % len(targets)].eci_state, dtype=float)
                if float(np.linalg.norm(point[:3])) < 1.0:
                    point = truth.copy()
                background = [t for t in targets if t is not tgt] if d["background"] else []
                probes.STATE["direct"] = "preset" if d.get("preset") else True
                if d.get("preset"):
                    sa.sensors.time_last_tasked = type(sa.sensors.time_last_tasked)(float(sa.time) - d["preset"]["since"])
                    if d["preset"]["boresight"] is not None:
                        b = np.asarray(d["preset"]["boresight"], dtype=float)
                        sa.sensors.boresight = b / (np.linalg.norm(b) or 1.0)
                sa.sensors.collectObservations(point, tgt, background)
        finally:
            probes.STATE["direct"] = False

    def shrink_candidates(self, case, violation):
        yield from generic_shrinks(case)
        for i in range(len(case.get("direct") or [])):
            yield variant(case, f"drop-direct-{i}", lambda c, i=i: c["direct"].pop(i))
        cfg = case["config"]
        for ei, e in enumerate(cfg["engines"]):
            if len(e["targets"]) > 1:
                for t in e["targets"]:
                    yield variant(case, f"drop-target-{t['id']}", lambda c, ei=ei, tid=t["id"]: c["config"]["engines"][ei].__setitem__("targets", [x for x in c["config"]["engines"][ei]["targets"] if x["id"] != tid]))
            if len(e["sensors"]) > 1:
                for s in e["sensors"]:
                    yield variant(case, f"drop-sensor-{s['id']}", lambda c, ei=ei, sid=s["id"]: c["config"]["engines"][ei].__setitem__("sensors", [x for x in c["config"]["engines"][ei]["sensors"] if x["id"] != sid]))
        if len(cfg["engines"]) > 1:
            for ei in range(len(cfg["engines"])):
                yield variant(case, f"drop-engine-{ei}", lambda c, ei=ei: c["config"]["engines"].pop(ei))
        if cfg["observation"]["background"]:
            yield variant(case, "background-off", lambda c: c["config"]["observation"].__setitem__("background", False))
        if case.get("noise") != "off":
            yield variant(case, "noise-off", lambda c: c.__setitem__("noise", "off"))


CHECK = C02()
