"""C01 - every scheduled event takes effect exactly once, at its configured time.

Delivery ledger (probe on every ``handleEvent``) judged by exact integer-time arithmetic; effect of
impulses judged against rsim's own piecewise Kepler solution; membership after additions /
removals; activity of duration events (task priority, sensor time bias).
"""

from __future__ import annotations

import datetime as dt
import itertools
import math
import random

import numpy as np

from .. import gen, probes, simray
from ..core import Check, jdigest, result_template
from ..oracles import exacttime as xt
from ..oracles import kepler
from ..run import cleanup, fmt_ts, history_digest, parse_ts, read_db, wrap_method
from .common import drive, generic_shrinks, interleaving_key, over, raised_in_harness, time_info, variant

BAND_US = 100            # Julian-date resolution band around a boundary (not on it): either adjacent step
POS_TOL = 1e-4           # km      (measured max is reported in the evidence)
VEL_TOL = 1e-7           # km/s    (smallest generated delta-v is 1e-4 km/s)
EST_POS_TOL = 1e-3
EST_VEL_TOL = 2e-6
STEPS = [10, 30, 60, 60, 97, 120, 300, 300, 600, 675, 900, 1350, 1800, 2700, 3600]
INSTANT = ("impulse", "target_addition", "sensor_addition", "agent_removal")
DURATION = ("task_priority", "sensor_time_bias")


def us(ts: str) -> int:
    return xt.to_us(parse_ts(ts))


class C01(Check):
    pid = "C01"
    level = "exploration"
    quick_budget_s = 75.0
    thorough_budget_s = 1200.0
    per_run_timeout_s = 40.0
    rule = ("case = scenario (start instant, step, 1-3 targets, 1-2 sensors, 1-2 engines) with 1-6 scheduled events whose times are drawn on exact "
            "step multiples (most), boundary +-1us/+-50us, interior, or outside the span; non-trivial = at least one judged event inside the simulated span; "
            "distinct = digest of (time block, events, plan, schedule)")
    assumptions = [
        "exact integer microsecond arithmetic decides the expected step; Julian dates are never used to decide",
        "times within 100 us of a boundary but not on it may be delivered in either adjacent step (double-precision Julian dates cannot resolve them)",
        "effect oracle only under two-body truth; an epoch coinciding with the impulse time may show the state with or without the delta-v",
        "duration events: partially overlapping steps are accepted either way (statement's 'overlaps' admits both readings implemented by the code)",
    ]
    real_components = ["Scenario.stepForward / event queries (SQLAlchemy+SQLite)", "all Event.handleEvent implementations", "agent event queues and pruning",
                       "Celestial.propagate with solve_ivp event handling", "TwoBody / SpecialPerturbations", "tasking engine (full mode)", "UKF predict (planned impulses)", "KeyValueStore / EventStack logic"]
    stub_components = ["ray (rsim.simray: seeded completion order, execution mode, task retry)"]

    def setup(self, tier):
        probes.install_step_recorder()
        probes.install_event_recorder()
        probes.install_tasking_recorder()
        from resonaate.parallel.estimate_prediction import EstPredictRegistration

        def after_pred(self, tok, res, results):
            probes.rec("pred", agent=self._registrant.simulation_id, pred_x=np.array(results.pred_x, dtype=float).copy())  # noqa: SLF001

        wrap_method(EstPredictRegistration, "processResults", after=after_pred)
        from resonaate.sensors.sensor_base import Sensor

        def before_collect(self, *a, **k):
            # what the copy of the sensor that actually takes the observation (inside the task job) has queued
            probes.rec("bias_seen", sensor=int(self.host.simulation_id), events=[int(ev.id) for ev in self.host.sensor_time_bias_event_queue])

        wrap_method(Sensor, "collectObservations", before=before_collect, tag="c01-bias-seen")

    # -- generation ---------------------------------------------------------------------------
    def gen(self, rng: random.Random, tier: str, index: int) -> dict:
        full = rng.random() < 0.4
        model = "two_body" if rng.random() < 0.85 else "special_perturbations"
        step = rng.choice(STEPS) if rng.random() < 0.75 else rng.randrange(2, 3601)
        nrun = rng.randrange(2, 9 if not full else 6)
        if not full and rng.random() < 0.2:
            # longer truth-only runs: how a boundary time k*step rounds through Julian dates depends on k*step itself (a few per cent of the values land
            # within a microsecond of the boundary, e.g. 660 s), so the elapsed seconds must vary widely
            nrun = rng.randrange(9, 41)
        ncfg = max(1, nrun + rng.choice([0, 0, 0, -1, 1, 2]))
        total = step * max(nrun, ncfg)
        if rng.random() < 0.3:
            day = gen.draw_start(rng, gen.EOP_FIRST, gen.EOP_LAST - dt.timedelta(days=3)).replace(hour=0, minute=0, second=0)
            start = day + dt.timedelta(seconds=675 * rng.randrange(0, 128))
        else:
            start = gen.draw_start(rng, gen.EOP_FIRST, gen.EOP_LAST - dt.timedelta(seconds=total + 2 * 86400), whole_minute_p=0.2)
        two_eng = rng.random() < 0.35
        cfg = gen.network_case(rng, nsteps=ncfg, step=step, start=start, n_sensors=2 if two_eng else rng.randrange(1, 3), n_targets=rng.randrange(1, 4),
                               coarse=True, model=model, two_engines_p=1.0 if two_eng else 0.0, space_sensor_p=0.0,
                               decision=rng.choice(["MunkresDecision", "MyopicNaiveGreedyDecision"]), truth_only=not full, out_mult=1,
                               reward={"name": "SimpleSummationReward", "metrics": [{"name": rng.choice(["TimeSinceObservation", "Range", "PositionCovarianceTrace"])}]},
                               estimation=gen.estimation_block(dynamics=model), geo_p=0.8,
                               noise={"init_position_std_km": 1e-3, "init_velocity_std_km_p_sec": 1e-6, "filter_noise_type": "continuous_white_noise",
                                      "filter_noise_magnitude": 3e-14, "random_seed": rng.randrange(1, 2**31)})
        if two_eng:
            # make both engines share every target so that misdelivered priorities do not crash but mis-scale
            if rng.random() < 0.6:
                allt = {t["id"]: t for e in cfg["engines"] for t in e["targets"]}
                for e in cfg["engines"]:
                    e["targets"] = list(allt.values())
        engines = cfg["engines"]
        S = start
        tids = sorted({t["id"] for e in engines for t in e["targets"]})
        sids = sorted({s["id"] for e in engines for s in e["sensors"]})
        eng_of_sensor = {s["id"]: e["unique_id"] for e in engines for s in e["sensors"]}

        def draw_time(kmin=1, kmax=nrun):
            m = rng.random()
            k = rng.randrange(kmin, kmax + 1)
            base = S + dt.timedelta(seconds=k * step)
            if m < 0.6:
                return base, k
            if m < 0.7:
                return base + dt.timedelta(microseconds=rng.choice([-1, 1])), k
            if m < 0.75:
                return base + dt.timedelta(microseconds=rng.choice([-50, 50, -90, 90])), k
            if m < 0.9:
                return base - dt.timedelta(seconds=rng.uniform(0.001, step - 0.001)), k
            return rng.choice([S, S - dt.timedelta(seconds=rng.randrange(1, 3 * step)), S + dt.timedelta(seconds=nrun * step + rng.randrange(1, 3 * step))]), None

        events = []
        removed_targets, removed_sensors = {}, {}
        added_targets = {}
        nev = rng.randrange(1, 7)
        next_tid, next_sid = 20001, 95001
        for _ in range(nev):
            kinds = ["impulse"] * 9 + ["target_addition"] * 2 + ["sensor_addition"] * 2 + ["agent_removal"] * 2
            if full:
                kinds += ["task_priority"] * 3 + ["sensor_time_bias"] * 2
            kind = rng.choice(kinds)
            if kind == "impulse":
                T, k = draw_time()
                cands = [t for t in tids if t not in removed_targets]
                if not cands:
                    continue
                tid = rng.choice(cands)
                mag = 10 ** rng.uniform(-4, -2)
                v = np.array([rng.gauss(0, 1) for _ in range(3)])
                v = (v / np.linalg.norm(v) * mag).tolist()
                events.append({"scope": "agent_propagation", "scope_instance_id": tid, "event_type": "impulse", "start_time": fmt_ts(T),
                               "thrust_vector": v, "thrust_frame": rng.choice(["eci", "ntw"]), "planned": rng.random() < 0.5})
            elif kind == "finite_burn":
                T, k = draw_time(1, max(1, nrun - 1))
                cands = [t for t in tids if t not in removed_targets]
                if not cands:
                    continue
                events.append({"scope": "agent_propagation", "scope_instance_id": rng.choice(cands), "event_type": "finite_burn", "start_time": fmt_ts(T),
                               "end_time": fmt_ts(T + dt.timedelta(seconds=rng.choice([step, step // 2 or 1, 2 * step]))),
                               "acc_vector": [rng.uniform(-1e-6, 1e-6) for _ in range(3)], "thrust_frame": rng.choice(["eci", "ntw"]), "planned": False})
            elif kind == "target_addition":
                T, k = draw_time()
                orb = gen.draw_orbit(rng, rng.choice(["leo", "geo", "meo"]))
                eid = rng.choice(engines)["unique_id"]
                events.append({"scope": "scenario_step", "scope_instance_id": 0, "event_type": "target_addition", "start_time": fmt_ts(T),
                               "tasking_engine_id": eid, "target_agent": gen.eci_target(next_tid, orb["pos"], orb["vel"])})
                added_targets[next_tid] = (T, eid)
                next_tid += 1
            elif kind == "sensor_addition":
                T, k = draw_time()
                lat, lon, alt = gen.draw_site(rng)
                eid = rng.choice(engines)["unique_id"]
                eng = next(e for e in engines if e["unique_id"] == eid)
                skind = "adv_radar" if eng["decision"]["name"] == "AllVisibleDecision" else rng.choice(["optical", "radar", "adv_radar"])
                events.append({"scope": "scenario_step", "scope_instance_id": 0, "event_type": "sensor_addition", "start_time": fmt_ts(T),
                               "tasking_engine_id": eid, "sensor_agent": gen.ground_sensor(next_sid, lat, lon, alt, gen.sensor_block(skind, coarse=True))})
                next_sid += 1
            elif kind == "agent_removal":
                T, k = draw_time()
                if rng.random() < 0.6:
                    # a target that is in exactly one engine and not the last one of it, with no other events
                    busy = {e["scope_instance_id"] for e in events if e["scope"] == "agent_propagation"} | {e.get("target_id") for e in events}
                    cands = []
                    for e in engines:
                        ids = [t["id"] for t in e["targets"] if t["id"] not in removed_targets]
                        for t in ids:
                            if len(ids) > 1 and sum(t in [x["id"] for x in e2["targets"]] for e2 in engines) == 1 and t not in busy:
                                cands.append((t, e["unique_id"]))
                    if not cands:
                        continue
                    tid, eid = rng.choice(cands)
                    removed_targets[tid] = T
                    events.append({"scope": "scenario_step", "scope_instance_id": 0, "event_type": "agent_removal", "start_time": fmt_ts(T),
                                   "tasking_engine_id": eid, "agent_id": tid, "agent_type": "target"})
                else:
                    busy = {e["scope_instance_id"] for e in events if e["event_type"] == "sensor_time_bias"}
                    cands = []
                    for e in engines:
                        ids = [s["id"] for s in e["sensors"] if s["id"] not in removed_sensors]
                        for s in ids:
                            if len(ids) > 1 and s not in busy:
                                cands.append((s, e["unique_id"]))
                    if not cands:
                        continue
                    sid, eid = rng.choice(cands)
                    removed_sensors[sid] = T
                    events.append({"scope": "scenario_step", "scope_instance_id": 0, "event_type": "agent_removal", "start_time": fmt_ts(T),
                                   "tasking_engine_id": eid, "agent_id": sid, "agent_type": "sensor"})
            elif kind == "task_priority":
                T, k = draw_time(1, max(1, nrun - 1))
                T2, _ = draw_time(1, nrun)
                if T2 < T:
                    T, T2 = T2, T
                eng = rng.choice(engines)
                cands = [t["id"] for t in eng["targets"] if t["id"] not in removed_targets]
                if not cands:
                    continue
                tid = rng.choice(cands)
                events.append({"scope": "task_reward_generation", "scope_instance_id": eng["unique_id"], "event_type": "task_priority", "start_time": fmt_ts(T),
                               "end_time": fmt_ts(T2), "target_id": tid, "target_name": f"T{tid}", "priority": rng.choice([2.0, 3.0, 5.0, 0.5]), "is_dynamic": False})
            elif kind == "sensor_time_bias":
                T, k = draw_time(1, max(1, nrun - 1))
                T2, _ = draw_time(1, nrun)
                if T2 < T:
                    T, T2 = T2, T
                cands = [s for s in sids if s not in removed_sensors]
                if not cands:
                    continue
                events.append({"scope": "observation_generation", "scope_instance_id": rng.choice(cands), "event_type": "sensor_time_bias", "start_time": fmt_ts(T),
                               "end_time": fmt_ts(T2), "applied_bias": rng.choice([0.001, 0.01, -0.01, 0.5])})
        cfg["events"] = events
        ncalls = rng.choice([1, 1, 2])
        # two consecutive calls: the first may ask for a time inside a step (it stops at the boundary before it and the second call continues)
        plan = [{"seconds": nrun * step}] if ncalls == 1 or nrun < 2 else [{"seconds": step * rng.randrange(1, nrun) + (rng.randrange(1, step) if rng.random() < 0.4 else 0)}, {"seconds": nrun * step}]
        sched = {"name": "seeded", "seed": rng.randrange(2**31), "retry_rate": rng.choice([0.0, 0.0, 0.15])}
        return {"config": cfg, "plan": plan, "schedule": sched, "job_seed": rng.randrange(2**31)}

    def sample_view(self, case):
        t = case["config"]["time"]
        evs = [{k: v for k, v in e.items() if k in ("event_type", "scope_instance_id", "start_time", "end_time", "planned", "thrust_frame", "tasking_engine_id", "agent_id")}
               for e in case["config"].get("events", [])]
        return {"start": t["start_timestamp"], "step": t["physics_step_sec"], "plan": case["plan"], "truth_only": case["config"]["propagation"]["truth_simulation_only"],
                "engines": len(case["config"]["engines"]), "events": evs}

    # -- oracle ---------------------------------------------------------------------------------
    def run(self, case: dict) -> dict:  # noqa: C901, PLR0912, PLR0915
        res = result_template()
        viol = res["violations"]
        cnt = res["counters"]
        cfg = case["config"]
        S, step, out, ncfg = time_info(case)
        S_us = xt.to_us(S)
        step_us = step * 1_000_000
        full = not cfg["propagation"]["truth_simulation_only"]
        two_body = cfg["propagation"]["propagation_model"] == "two_body"
        res["key"] = jdigest([cfg["time"], cfg.get("events"), case["plan"], case.get("schedule")])
        ctx = drive(case)
        try:
            if ctx.error is not None and raised_in_harness(ctx.error):
                raise ctx.error
            snaps = {sn["k"]: sn for sn in probes.of_kind("snap")}
            nrun = max(snaps) if snaps else 0
            res["sim_seconds"] = float(nrun * step)
            span_end_us = S_us + nrun * step_us
            # events in delivery order == DB id order == config sorted by start time (stable)
            evs = sorted(cfg.get("events", []), key=lambda e: parse_ts(e["start_time"]))
            if ctx.app is None and ctx.error is not None:
                res["skipped"] = f"build-failed:{type(ctx.error).__name__}"
                cnt[f"build_failed_{type(ctx.error).__name__}"] = 1
                return res
            dbrows = read_db(ctx.db_path, "select id, event_type, scope_instance_id from events order by id")
            if [r[1] for r in dbrows] != [e["event_type"] for e in evs]:
                raise RuntimeError(f"harness: event rows {dbrows} do not match config order {[e['event_type'] for e in evs]}")
            deliveries = {}
            for d in probes.of_kind("deliver"):
                deliveries.setdefault(d["event_id"], []).append(d)

            aborted = ctx.error is not None
            if aborted:
                name = type(ctx.error).__name__
                cnt[f"aborted_{name}"] = 1
                in_delivery = False
                tb = ctx.error.__traceback__
                while tb is not None:
                    fn = tb.tb_frame.f_code.co_filename.replace("\\", "/")
                    if "/resonaate/data/events/" in fn or tb.tb_frame.f_code.co_name == "handleRelevantEvents":
                        in_delivery = True
                    tb = tb.tb_next
                if in_delivery or name in ("AgentAdditionError", "AgentRemovalError", "KeyError"):
                    viol.append({"clause": "run-aborted-by-event-delivery", "key": name,
                                 "detail": f"run aborted in step {probes.STATE['step']} with {name}: {str(ctx.error)[:300]} (all generated events are valid: "
                                           f"{'the handler of a delivered event failed' if in_delivery else 'a duplicated or misdirected delivery'})"})

            judged = 0
            for (eid, etype, _sid), ev in zip(dbrows, evs):
                T_us = us(ev["start_time"])
                E_us = us(ev["end_time"]) if ev.get("end_time") else T_us
                dl = deliveries.get(eid, [])
                if etype in INSTANT:
                    if not (S_us < T_us <= span_end_us):
                        cnt["event_outside_span"] = cnt.get("event_outside_span", 0) + 1
                        continue
                    k = xt.step_of(T_us, S_us, step_us)
                    off = (T_us - S_us) % step_us
                    on_boundary = off == 0
                    allowed = {k}
                    if not on_boundary:
                        if off <= BAND_US:          # just after boundary k-1
                            allowed.add(k - 1)
                            cnt["event_in_resolution_band"] = cnt.get("event_in_resolution_band", 0) + 1
                        elif step_us - off <= BAND_US:  # just before boundary k
                            allowed.add(k + 1)
                            cnt["event_in_resolution_band"] = cnt.get("event_in_resolution_band", 0) + 1
                    else:
                        cnt["event_on_exact_boundary"] = cnt.get("event_on_exact_boundary", 0) + 1
                    if aborted and probes.STATE["step"] <= max(allowed):
                        continue  # the run died before/within the step that had to deliver it
                    judged += 1
                    if etype == "impulse":
                        want = [("TargetAgent", ev["scope_instance_id"])] + ([("EstimateAgent", ev["scope_instance_id"])] if ev.get("planned") else [])
                    else:
                        want = [("Scenario", None)]
                    for htype, hid in want:
                        mine = [d for d in dl if d["handler_type"] == htype and d["handler_id"] == hid]
                        desc = f"{etype} #{eid} at {ev['start_time']} (start {S.isoformat()}, step {step}s, expected step {k}{'' if on_boundary else ' (interior)'})"
                        if len(mine) == 0:
                            viol.append({"clause": "event-dropped", "key": etype, "detail": f"{desc}: never delivered to {htype} {hid}"})
                        elif len(mine) > 1:
                            viol.append({"clause": "event-duplicated", "key": etype, "detail": f"{desc}: delivered {len(mine)}x to {htype} {hid} in steps {[d['step'] for d in mine]}"})
                        elif mine[0]["step"] not in allowed:
                            viol.append({"clause": "event-wrong-step", "key": etype, "detail": f"{desc}: delivered to {htype} {hid} in step {mine[0]['step']}"})
                    others = [d for d in dl if (d["handler_type"], d["handler_id"]) not in want]
                    if others:
                        viol.append({"clause": "event-misdelivered", "key": etype,
                                     "detail": f"{etype} #{eid} also delivered to {[(d['handler_type'], d['handler_id']) for d in others]}"})
                elif etype in DURATION:
                    judged_here = False
                    bias_seen = probes.of_kind("bias_seen")
                    for k in range(1, nrun + 1):
                        if aborted and k >= probes.STATE["step"]:
                            break
                        lo, hi = S_us + (k - 1) * step_us, S_us + k * step_us
                        near = any(0 < abs(x - b) <= BAND_US for x in (T_us, E_us) for b in (lo, hi))
                        no_overlap = E_us <= lo or T_us > hi
                        epoch_in = T_us <= hi <= E_us
                        if etype == "task_priority":
                            got = [d for d in dl if d["step"] == k]
                            ok_handlers = [d for d in got if d["handler_type"].endswith("TaskingEngine") and d["handler_id"] == ev["scope_instance_id"]]
                            wrong = [d for d in got if d not in ok_handlers]
                            if wrong:
                                viol.append({"clause": "event-misdelivered", "key": etype,
                                             "detail": f"task_priority #{eid} for engine {ev['scope_instance_id']} delivered to {[(d['handler_type'], d['handler_id']) for d in wrong]} in step {k}"})
                            active = len(ok_handlers)
                        else:
                            sn = snaps.get(k)
                            active = int(eid in sn.get("bias_queue", {}).get(ev["scope_instance_id"], [])) if sn else 0
                            wrong_s = [sid for sid, q in (sn.get("bias_queue", {}) if sn else {}).items() if eid in q and sid != ev["scope_instance_id"]]
                            if wrong_s:
                                viol.append({"clause": "event-misdelivered", "key": etype, "detail": f"time bias #{eid} for sensor {ev['scope_instance_id']} queued on sensors {wrong_s} in step {k}"})
                            # where the bias takes effect: the sensor copy that collects observations inside this step's task job
                            seen = [r2["events"] for r2 in bias_seen if r2["step"] == k and r2["sensor"] == ev["scope_instance_id"]]
                            if seen and not near:
                                cnt["time_bias_judged_inside_task_job"] = cnt.get("time_bias_judged_inside_task_job", 0) + 1
                                in_job = any(eid in q for q in seen)
                                where = f"sensor_time_bias #{eid} [{ev['start_time']} .. {ev.get('end_time')}] step {k}: the sensor copy observing inside the task job"
                                if epoch_in and not all(eid in q for q in seen):
                                    viol.append({"clause": "duration-inactive-inside-interval", "key": etype + "/in-task-job", "detail": f"{where} does not have the bias queued although the step's epoch lies inside the interval"})
                                if no_overlap and in_job:
                                    viol.append({"clause": "duration-active-outside-interval", "key": etype + "/in-task-job", "detail": f"{where} has the bias queued although the interval does not overlap the step"})
                        if near:
                            res["indeterminate"] += 1
                            continue
                        judged_here = True
                        desc = f"{etype} #{eid} [{ev['start_time']} .. {ev.get('end_time')}] step {k} = ({xt.from_us(lo).isoformat()}, {xt.from_us(hi).isoformat()}]"
                        if no_overlap and active:
                            viol.append({"clause": "duration-active-outside-interval", "key": etype, "detail": f"{desc}: active {active}x although the interval does not overlap the step"})
                        if epoch_in and active == 0:
                            viol.append({"clause": "duration-inactive-inside-interval", "key": etype, "detail": f"{desc}: not active although the step's epoch lies inside the interval"})
                        if active > 1:
                            viol.append({"clause": "event-duplicated", "key": etype, "detail": f"{desc}: applied {active}x in one step"})
                        if epoch_in:
                            cnt["duration_step_inside"] = cnt.get("duration_step_inside", 0) + 1
                    judged += int(judged_here)
                else:
                    cnt["finite_thrust_events_not_judged"] = cnt.get("finite_thrust_events_not_judged", 0) + 1

            # priority effect: the addressed engine's reward row is multiplied exactly once per active step
            if full:
                self._judge_priority_effect(evs, dbrows, deliveries, viol, cnt)

            # membership after additions / removals
            self._judge_membership(cfg, evs, snaps, S_us, step_us, nrun, viol, cnt, aborted)

            # effect of impulses on the truth (two-body) and on the estimate's prediction (planned)
            if two_body and snaps:
                self._judge_effect(cfg, evs, snaps, S_us, step_us, nrun, viol, cnt, res, full)

            # cross-check with the event records pushed from inside the jobs (only without retries)
            if simray.STATE.stats["retries"] == 0 and not aborted and two_body:
                pushes = {}
                for txn, key, payload in simray.STATE.kvs_log:
                    if txn == "AppendTransaction" and key == "event_stack" and isinstance(payload, str) and "Impulse" in payload:
                        import json as _j

                        pid = _j.loads(payload)["performer"]
                        pushes[pid] = pushes.get(pid, 0) + 1
                # events at the very last epoch may legitimately be applied by the next (never run) step: only lower/upper bounds
                for pid, n in pushes.items():
                    total_possible = sum(1 + (1 if ev.get("planned") and full else 0) for ev in evs if ev["event_type"] == "impulse" and ev["scope_instance_id"] == pid
                                         and S_us < us(ev["start_time"]) <= span_end_us + BAND_US)
                    if n > total_possible:
                        viol.append({"clause": "impulse-applied-too-often", "key": "kvs", "detail": f"agent {pid}: {n} impulse applications recorded by the jobs, at most {total_possible} scheduled in the span"})
                cnt["kvs_crosscheck"] = 1

            res["nontrivial"] = judged > 0
            cnt["events_judged"] = judged
            cnt["events_total"] = len(evs)
            cnt["steps"] = nrun
            if len(cfg["engines"]) > 1:
                cnt["two_engines"] = 1
            by_step = {}
            for ev in evs:
                if ev["event_type"] in INSTANT and S_us < us(ev["start_time"]) <= span_end_us:
                    by_step.setdefault(xt.step_of(us(ev["start_time"]), S_us, step_us), []).append(1)
            if any(len(v) > 1 for v in by_step.values()):
                cnt["several_events_in_one_step"] = 1
            res["faults"]["task_retry"] = simray.STATE.stats["retries"]
            res["interleaving"] = interleaving_key()
            res["digest"] = history_digest(ctx, [viol, cnt])
        finally:
            cleanup(ctx)
        return res

    # ------------------------------------------------------------------------------------------
    def _judge_priority_effect(self, evs, dbrows, deliveries, viol, cnt):
        """The reward matrix the decision policy receives must be the documented reward (what
        ``Reward.calculate`` returned) with the addressed target's row multiplied by the priority
        once per delivery of this step - and nothing else changed."""
        base = {}
        for r in probes.LOG:
            if r["kind"] == "reward_calc":
                base[(r["step"], r["engine"])] = r
            elif r["kind"] == "decision_in":
                b = base.get((r["step"], r["engine"]))
                if b is None:
                    continue
                bm = np.array(b["value"], dtype=float).reshape(r["reward"].shape) if b["value"].size == r["reward"].size else None
                if bm is None:
                    continue
                begin = [x for x in probes.LOG if x["kind"] == "assess_begin" and x["step"] == r["step"] and x["engine"] == r["engine"]]
                targets = begin[-1]["targets"] if begin else []
                factor = {}
                for (eid, etype, _s), ev in zip(dbrows, evs):
                    if etype != "task_priority":
                        continue
                    n = len([d for d in deliveries.get(eid, []) if d["step"] == r["step"] and d["handler_id"] == r["engine"]])
                    if n:
                        factor[ev["target_id"]] = factor.get(ev["target_id"], 1.0) * ev["priority"] ** n
                for ti, tid in enumerate(targets):
                    want = bm[ti, :] * factor.get(tid, 1.0)
                    if not np.allclose(r["reward"][ti, :], want, rtol=1e-12, atol=0):
                        viol.append({"clause": "priority-effect", "key": "reward-row",
                                     "detail": f"step {r['step']} engine {r['engine']} target {tid}: reward row given to the decision {r['reward'][ti, :].tolist()} "
                                               f"!= documented reward {bm[ti, :].tolist()} x priority factor {factor.get(tid, 1.0)}"})
                        return
                    if tid in factor and np.any(bm[ti, :] != 0):
                        cnt["priority_scaled_nonzero_rows"] = cnt.get("priority_scaled_nonzero_rows", 0) + 1

    def _judge_membership(self, cfg, evs, snaps, S_us, step_us, nrun, viol, cnt, aborted):
        init_t = {e["unique_id"]: {t["id"] for t in e["targets"]} for e in cfg["engines"]}
        init_s = {e["unique_id"]: {s["id"] for s in e["sensors"]} for e in cfg["engines"]}
        changes = []
        for ev in evs:
            if ev["event_type"] not in ("target_addition", "sensor_addition", "agent_removal"):
                continue
            T_us = us(ev["start_time"])
            if not (S_us < T_us <= S_us + nrun * step_us + BAND_US):
                continue
            off = (T_us - S_us) % step_us
            k = xt.step_of(T_us, S_us, step_us)
            fuzzy = off != 0 and (off <= BAND_US or step_us - off <= BAND_US)
            changes.append((k, fuzzy, ev))
        last = max(snaps) if snaps else 0
        for k in range(1, last + 1):
            sn = snaps.get(k)
            if sn is None:
                continue
            exp_t = {e: set(v) for e, v in init_t.items()}
            exp_s = {e: set(v) for e, v in init_s.items()}
            unsure = False
            for ck, fuzzy, ev in changes:
                if fuzzy and abs(ck - k) <= 1:
                    unsure = True
                if ck <= k:
                    eid = ev["tasking_engine_id"]
                    if ev["event_type"] == "target_addition":
                        exp_t[eid].add(ev["target_agent"]["id"])
                    elif ev["event_type"] == "sensor_addition":
                        exp_s[eid].add(ev["sensor_agent"]["id"])
                    elif ev["agent_type"] == "target":
                        exp_t[eid].discard(ev["agent_id"])
                    else:
                        exp_s[eid].discard(ev["agent_id"])
            if unsure:
                continue
            got_t = {e: set(v["targets"]) for e, v in sn["engines"].items()}
            got_s = {e: set(v["sensors"]) for e, v in sn["engines"].items()}
            if got_t != exp_t or got_s != exp_s:
                viol.append({"clause": "membership", "key": "engine",
                             "detail": f"after step {k}: engine targets {got_t} sensors {got_s}, expected targets {exp_t} sensors {exp_s}"})
                break
            all_t = set().union(*exp_t.values())
            all_s = set().union(*exp_s.values())
            if set(sn["targets"]) != all_t or set(sn["sensors"]) != all_s:
                viol.append({"clause": "membership", "key": "scenario",
                             "detail": f"after step {k}: scenario targets {sorted(sn['targets'])} sensors {sorted(sn['sensors'])}, expected {sorted(all_t)} / {sorted(all_s)}"})
                break
        if changes:
            cnt["membership_changes"] = len(changes)

    def _judge_effect(self, cfg, evs, snaps, S_us, step_us, nrun, viol, cnt, res, full):
        """Step-local reference: truth at epoch k must equal rsim's Kepler propagation of the truth at
        epoch k-1 with the impulses of that step applied once each.  An impulse whose time coincides
        with an epoch may show on either side of it, but over the whole run it must show exactly once."""
        step = step_us / 1e6
        added = {}
        for ev in evs:
            if ev["event_type"] == "target_addition":
                T_us = us(ev["start_time"])
                off = (T_us - S_us) % step_us
                if S_us < T_us <= S_us + nrun * step_us and not (off != 0 and (off <= BAND_US or step_us - off <= BAND_US)):
                    st = ev["target_agent"]["state"]
                    added[ev["target_agent"]["id"]] = (xt.step_of(T_us, S_us, step_us), np.array(st["position"] + st["velocity"], dtype=float))
        imp = {}
        skip = set()
        for ev in evs:
            if ev["event_type"] == "impulse":
                imp.setdefault(ev["scope_instance_id"], []).append(ev)
            if ev["event_type"] in ("finite_burn", "finite_maneuver"):
                skip.add(ev["scope_instance_id"])
        max_p = max_v = 0.0
        last = max(snaps)
        all_tids = set()
        for sn in snaps.values():
            all_tids |= set(sn["targets"])
        for tid in sorted(all_tids - skip):
            my = sorted(imp.get(tid, []), key=lambda e: us(e["start_time"]))
            times = [(us(e["start_time"]) - S_us) / 1e6 for e in my]
            applied = [0] * len(my)
            bad = False
            for k in range(1, last + 1):
                if k not in snaps or tid not in snaps[k]["targets"]:
                    continue
                if (k - 1) in snaps and tid in snaps[k - 1]["targets"]:
                    x_prev = snaps[k - 1]["targets"][tid]
                elif tid in added and added[tid][0] == k:
                    x_prev = added[tid][1]
                else:
                    continue
                t_lo, t_hi = (k - 1) * step, k * step
                certain = [i for i, T in enumerate(times) if t_lo + 1e-3 < T < t_hi - 1e-3]
                optional = [i for i, T in enumerate(times) if abs(T - t_lo) <= 1e-3 or abs(T - t_hi) <= 1e-3]
                got = snaps[k]["targets"][tid]
                best = None
                for r in range(len(optional) + 1):
                    for extra in itertools.combinations(optional, r):
                        use = sorted(certain + list(extra), key=lambda i: (times[i], i))
                        x, t = np.array(x_prev, dtype=float), t_lo
                        for i in use:
                            T = min(max(times[i], t_lo), t_hi)
                            x = kepler.propagate(x, T - t)
                            t = T
                            dv = np.array(my[i]["thrust_vector"], dtype=float)
                            if my[i]["thrust_frame"] == "ntw":
                                dv = kepler.ntw_to_eci_matrix(x) @ dv
                            x = x.copy()
                            x[3:] += dv
                        x = kepler.propagate(x, t_hi - t)
                        dp, dvv = float(np.linalg.norm(x[:3] - got[:3])), float(np.linalg.norm(x[3:] - got[3:]))
                        score = dp / POS_TOL + dvv / VEL_TOL
                        if best is None or score < best[0]:
                            best = (score, dp, dvv, use)
                _, dp, dvv, use = best
                if over(dp, POS_TOL) or over(dvv, VEL_TOL):
                    why = self._explain(x_prev, t_lo, [my[i] for i in certain + optional], [times[i] for i in certain + optional], t_hi, got)
                    viol.append({"clause": "impulse-effect", "key": why.split(":")[0],
                                 "detail": f"target {tid} step {k} ({t_lo}s -> {t_hi}s): truth is {dp:.3e} km / {dvv:.3e} km/s from rsim's Kepler propagation of the previous truth with "
                                           f"impulses {[my[i]['start_time'] for i in use]} applied once each; {why}"})
                    bad = True
                    break
                max_p, max_v = max(max_p, dp), max(max_v, dvv)
                for i in use:
                    applied[i] += 1
                if certain or optional:
                    cnt["steps_with_impulse_judged"] = cnt.get("steps_with_impulse_judged", 0) + 1
            if bad:
                continue
            t_first = (added[tid][0] - 1) * step if tid in added else 0.0
            t_end = last * step
            for i, T in enumerate(times):
                if not (t_first + 1e-3 < T):
                    continue
                if T > t_end + 1e-3:
                    continue
                if abs(T - t_end) <= 1e-3:
                    ok = applied[i] in (0, 1)   # the next (never run) step may legitimately apply it
                else:
                    ok = applied[i] == 1
                if not ok:
                    kind = "dropped" if applied[i] == 0 else "doubled"
                    viol.append({"clause": "impulse-effect", "key": kind,
                                 "detail": f"target {tid}: impulse at {my[i]['start_time']} (on a step epoch) shows in the truth {applied[i]} times over the run (must be exactly once)"})
        res["tolerances"]["truth_vs_kepler_pos_km"] = [max_p, POS_TOL]
        res["tolerances"]["truth_vs_kepler_vel_kms"] = [max_v, VEL_TOL]
        # planned impulses must show in the estimate's prediction
        if full and cfg["estimation"]["sequential_filter"].get("dynamics_model") == "two_body":
            preds = {(r["step"], r["agent"]): r["pred_x"] for r in probes.of_kind("pred")}
            for tid, my in imp.items():
                for ev in my:
                    if not ev.get("planned"):
                        continue
                    T = (us(ev["start_time"]) - S_us) / 1e6
                    off = (us(ev["start_time"]) - S_us) % step_us
                    if off == 0 or off <= BAND_US or step_us - off <= BAND_US:
                        continue  # at a coincident epoch the discontinuity may be recorded on either side
                    k = xt.step_of(us(ev["start_time"]), S_us, step_us)
                    prev, pred = snaps.get(k - 1), preds.get((k, tid))
                    if prev is None or pred is None or tid not in prev.get("estimates", {}):
                        continue
                    lo_us, hi_us = S_us + (k - 1) * step_us - 1000, S_us + k * step_us + 1000
                    others = [e for e in my if e is not ev and lo_us <= us(e["start_time"]) <= hi_us]
                    if others:
                        continue
                    x = kepler.propagate(prev["estimates"][tid][0], T - (k - 1) * step)
                    dv = np.array(ev["thrust_vector"], dtype=float)
                    if ev["thrust_frame"] == "ntw":
                        dv = kepler.ntw_to_eci_matrix(x) @ dv
                    x_at = x.copy()
                    x = x.copy()
                    x[3:] += dv
                    x = kepler.propagate(x, k * step - T)
                    dp, dvv = float(np.linalg.norm(x[:3] - pred[:3])), float(np.linalg.norm(x[3:] - pred[3:]))
                    # the filter predicts the weighted mean of propagated sigma points, which differs from the propagated mean by a second-order term
                    # that grows with the covariance and the step (metres over an hour): beyond the absolute tolerance the question "exactly once?" is
                    # decided relative to the size of the impulse's effect (distance between the references with the delta-v applied once and not at all)
                    x0ref = kepler.propagate(x_at, k * step - T)
                    eff_p, eff_v = float(np.linalg.norm(x[:3] - x0ref[:3])), float(np.linalg.norm(x[3:] - x0ref[3:]))
                    if (over(dp, EST_POS_TOL) or over(dvv, EST_VEL_TOL)) and dp <= max(EST_POS_TOL, 0.05 * eff_p) and dvv <= max(EST_VEL_TOL, 0.05 * eff_v):
                        cnt["planned_impulse_judged_relative_to_its_effect"] = cnt.get("planned_impulse_judged_relative_to_its_effect", 0) + 1
                        continue
                    cnt["planned_impulse_predictions_judged"] = cnt.get("planned_impulse_predictions_judged", 0) + 1
                    t_p = res["tolerances"].get("estimate_pred_pos_km", [0.0, EST_POS_TOL])
                    res["tolerances"]["estimate_pred_pos_km"] = [max(t_p[0], dp), EST_POS_TOL]
                    t_v = res["tolerances"].get("estimate_pred_vel_kms", [0.0, EST_VEL_TOL])
                    res["tolerances"]["estimate_pred_vel_kms"] = [max(t_v[0], dvv), EST_VEL_TOL]
                    if over(dp, EST_POS_TOL) or over(dvv, EST_VEL_TOL):
                        viol.append({"clause": "planned-impulse-estimate-effect", "key": ev["thrust_frame"],
                                     "detail": f"estimate {tid} step {k}: predicted mean is {dp:.3e} km / {dvv:.3e} km/s from the reference with the planned impulse at {ev['start_time']} applied once"})

    def _explain(self, x0, t0, my, times, tk, got):
        """Find which alternative (an impulse dropped / doubled / one step late) reproduces the truth."""
        n = len(my)
        alts = []
        for mult in itertools.product([0, 1, 2], repeat=min(n, 4)):
            if all(m == 1 for m in mult):
                continue
            x, t = x0.copy(), t0
            okay = True
            for i, m in enumerate(mult):
                T = times[i]
                if not (t0 < T <= tk + 1e-3) or m == 0:
                    continue
                T = min(T, tk)
                if T < t:
                    okay = False
                    break
                x = kepler.propagate(x, T - t)
                t = T
                dv = np.array(my[i]["thrust_vector"], dtype=float)
                for _ in range(m):
                    d = kepler.ntw_to_eci_matrix(x) @ dv if my[i]["thrust_frame"] == "ntw" else dv
                    x = x.copy()
                    x[3:] += d
            if not okay:
                continue
            x = kepler.propagate(x, tk - t)
            if np.linalg.norm(x[:3] - got[:3]) <= POS_TOL * 10 and np.linalg.norm(x[3:] - got[3:]) <= VEL_TOL * 10:
                alts.append(mult)
        if alts:
            m = alts[0]
            kind = "dropped" if 0 in m and 2 not in m else ("doubled" if 2 in m and 0 not in m else "dropped+doubled")
            if kind == "dropped":
                # every dropped impulse shares its instant (within the date resolution) with an applied one of the same agent?
                def twin(i):
                    return any(j != i and m[j] >= 1 and abs(times[j] - times[i]) <= BAND_US * 1e-6 for j in range(len(m)))
                if all(twin(i) for i, c in enumerate(m) if c == 0 and t0 < times[i] <= tk + 1e-3):
                    kind = "same-instant-impulses"
            return f"{kind}: matches application counts {list(m)} for impulses at {[e['start_time'] for e in my[:4]]}"
        return "unexplained: no combination of dropped/doubled impulses reproduces it"

    # -- shrinking ----------------------------------------------------------------------------
    def shrink_candidates(self, case, violation):
        yield from generic_shrinks(case)
        cfg = case["config"]
        if not cfg["propagation"]["truth_simulation_only"] and violation["clause"] in ("event-dropped", "event-duplicated", "event-wrong-step", "impulse-effect", "membership"):
            yield variant(case, "truth-only", lambda c: c["config"]["propagation"].__setitem__("truth_simulation_only", True))
        used_t = {e["scope_instance_id"] for e in cfg.get("events", [])} | {e.get("target_id") for e in cfg.get("events", [])} | {e.get("agent_id") for e in cfg.get("events", [])}
        for ei, e in enumerate(cfg["engines"]):
            if len(e["targets"]) > 1:
                for t in e["targets"]:
                    if t["id"] not in used_t:
                        yield variant(case, f"drop-target-{t['id']}", lambda c, ei=ei, tid=t["id"]: c["config"]["engines"][ei].__setitem__("targets", [x for x in c["config"]["engines"][ei]["targets"] if x["id"] != tid]))
            if len(e["sensors"]) > 1:
                for s in e["sensors"]:
                    if s["id"] not in used_t:
                        yield variant(case, f"drop-sensor-{s['id']}", lambda c, ei=ei, sid=s["id"]: c["config"]["engines"][ei].__setitem__("sensors", [x for x in c["config"]["engines"][ei]["sensors"] if x["id"] != sid]))
        for i, ev in enumerate(cfg.get("events", [])):
            if ev.get("planned"):
                yield variant(case, f"unplanned-{i}", lambda c, i=i: c["config"]["events"][i].__setitem__("planned", False))
            if ev.get("thrust_frame") == "ntw":
                yield variant(case, f"eci-{i}", lambda c, i=i: c["config"]["events"][i].__setitem__("thrust_frame", "eci"))


CHECK = C01()
