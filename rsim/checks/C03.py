"""C03 - orbit propagation is composable, batch-consistent, Kepler-exact and conservative.

Three of the four clauses are relations between *ways of driving the clock*, which is what the
simulator varies: (a) step dt vs dt/m and one run call vs several; (b) a scenario started k steps
later from the states the first one had there (perturbed dynamics must depend only on the absolute
epoch); (c) closed-form Kepler motion, energy and angular momentum under two-body truth;
(d) batch consistency - every (6, K) sigma-point propagation the filter performs is re-done column
by column on a pickled copy of the dynamics object, and ``propagateBulk`` over the run's epoch grid
is compared with the stored truth of the stepped run.
"""

from __future__ import annotations

import copy
import datetime as dt
import pickle
import random

import numpy as np

from .. import gen, probes
from ..core import Check, fork_call, jdigest, result_template
from ..oracles import kepler
from ..run import cleanup, fmt_ts, parse_ts, wrap_method
from .common import drive, note_abort, over, time_info, variant

CONS_REL = 1e-8                     # energy / angular momentum, relative
RTOL = 1e-10                        # the integrator's own relative tolerance (Dynamics.RELATIVE_TOL)


def limits(span: float, state, factor: float = 10.0):
    """'Within integrator tolerance': solve_ivp accepts a local error of rtol*|y| per internal step; with
    steps of >= ~5 s the accumulated error over ``span`` is bounded by rtol*|y|*span/5.  ``factor`` 10 on top (20 against the closed form).
    (LEO, one hour: 1.5e-3 km / 1.6e-6 km/s; an indexing or epoch slip is kilometres.)"""
    st = np.asarray(state, dtype=float)
    nsteps = max(span / 5.0, 10.0)
    return (factor * RTOL * float(np.linalg.norm(st[:3])) * nsteps + 1e-7, factor * RTOL * float(np.linalg.norm(st[3:])) * nsteps + 1e-10)

BATCH = {"pending": None}


def install_batch_monitor():
    from resonaate.dynamics.celestial import Celestial

    def after_prop(self, tok, res, initial_time, final_time, initial_state, station_keeping=None, scheduled_events=None, error_flags=None, **kw):
        if BATCH.get("busy"):
            return
        st = np.asarray(initial_state)
        if st.ndim != 2 or st.shape[1] < 2 or station_keeping or scheduled_events:
            return
        K = st.shape[1]
        BATCH["busy"] = True
        try:
            cols = sorted({0, (int(abs(float(st[0, 1])) * 1e6) % (K - 1)) + 1, K - 1})
            worst = (0.0, 0.0)
            lp, lv = limits(float(final_time) - float(initial_time), st[:, 0])
            for j in cols:
                twin = pickle.loads(pickle.dumps(self))
                single = twin.propagate(initial_time, final_time, st[:, j].copy())
                dp = float(np.linalg.norm(single[:3] - np.asarray(res)[:3, j]))
                dv = float(np.linalg.norm(single[3:] - np.asarray(res)[3:, j]))
                worst = (max(worst[0], dp), max(worst[1], dv))
            probes.rec("batch", K=K, dp=worst[0], dv=worst[1], lp=lp, lv=lv, span=float(final_time) - float(initial_time), cls=type(self).__name__)
        finally:
            BATCH["busy"] = False

    wrap_method(Celestial, "propagate", after=after_prop)


def truth_of(snaps):
    return {sn["k"]: {aid: np.array(v) for aid, v in sn["targets"].items()} for sn in snaps}


class C03(Check):
    pid = "C03"
    level = "exploration"
    quick_budget_s = 75.0
    thorough_budget_s = 1200.0
    per_run_timeout_s = 600.0
    rule = ("case = truth scenario (1-3 bound orbits LEO..beyond GEO, e <= 0.7, two-body or randomly configured special perturbations, RK45 or DOP853, step 2 s .. 3 h, up to a day) "
            "plus variants: step divided by m, run split into several calls, start shifted by k steps with copied states, estimation switched on (batch monitor); "
            "non-trivial = >= 2 members ran and >= 1 common epoch was compared; distinct = digest of the family")
    assumptions = [
        "'within integrator tolerance' = 10 * rtol(1e-10) * |y| * span/5 s (+1e-7 km, +1e-10 km/s), twice that against the closed form; ratios of measured difference to limit are reported; energy and angular momentum 1e-8 relative",
        "the force model itself is trusted (C13); only its dependence on how the epoch is split between start date and elapsed seconds is tested",
        "propagateBulk is called by the harness on the scenario's own dynamics object over the run's epoch grid (in runs it is only reached from multiple-model initialisation)",
    ]
    real_components = ["Celestial.propagate / propagateBulk (solve_ivp restart loop)", "TwoBody", "SpecialPerturbations (geopotential, third bodies, SRP, GR as configured)", "Scenario stepping / PropagateExecutor", "UKF predict (sigma-point batches)"]
    stub_components = ["ray (rsim.simray)"]

    def setup(self, tier):
        probes.install_step_recorder()
        install_batch_monitor()

    def gen(self, rng: random.Random, tier: str, index: int) -> dict:
        sp = rng.random() < 0.35
        model = "special_perturbations" if sp else "two_body"
        mode = rng.random()
        if mode < 0.55:
            step = rng.choice([2, 10, 30, 60, 120, 300, 600])
            n = rng.randrange(2, 9)
        elif mode < 0.85:
            step = rng.choice([900, 1800, 3600])
            n = rng.randrange(2, 9)
        else:
            step = rng.choice([7200, 10800])
            n = rng.randrange(2, 9 if step == 10800 else 13)
            if step * n > 86400:
                n = 86400 // step
        if sp and step * n > 6 * 3600 and tier == "quick":
            n = max(2, (6 * 3600) // step)
        start = gen.draw_start(rng, gen.EOP_FIRST, gen.EOP_LAST - dt.timedelta(days=3), whole_minute_p=0.3)
        targets = []
        for j in range(rng.randrange(1, 4)):
            orb = gen.draw_orbit(rng, rng.choice(["leo", "meo", "geo", "heo", "xgeo"]), emax=0.7)
            # always explicit: the defaults depend on the altitude band of the *initial* state, so a scenario started a step later from the copied
            # states would silently get another mass / area (and another radiation pressure) - not what the shifted-start relation is about
            plat = {"mass": rng.choice([2.0, 50.0, 500.0, 4000.0]), "visual_cross_section": rng.choice([0.1, 5.0, 60.0, 200.0]), "reflectivity": rng.choice([0.1, 0.21, 0.9])}
            targets.append(gen.eci_target(10001 + j, orb["pos"], orb["vel"], **plat))
        lat, lon, alt = gen.draw_site(rng)
        sensors = [gen.ground_sensor(90001, lat, lon, alt, gen.sensor_block("adv_radar", coarse=True, field_of_view={"fov_shape": "conic", "cone_angle": 60.0}))]
        geop = {"model": rng.choice(["egm96.txt", "egm2008.txt", "GGM03S.txt", "jgm3.txt"]), "degree": rng.choice([0, 2, 2, 4, 8]), "order": rng.choice([0, 0, 2, 4])}
        geop["order"] = min(geop["order"], geop["degree"])
        pert = {"third_bodies": rng.sample(["sun", "moon", "jupiter", "venus", "saturn"], rng.choice([0, 1, 2, 2, 3])), "solar_radiation_pressure": rng.random() < 0.55,
                "general_relativity": rng.random() < 0.3}
        full = rng.random() < (0.35 if not sp else 0.15)
        cfg = gen.base_config(start, step, n, [gen.engine_block(1, sensors, targets, "AllVisibleDecision")], model=model, integrator=rng.choice(["RK45", "DOP853"]),
                              truth_only=not full, seed=rng.randrange(1, 2**31), geopotential=geop, perturbations=pert,
                              estimation=gen.estimation_block(dynamics=model, alpha=rng.choice([0.001, 0.05])),
                              noise={"init_position_std_km": 1e-3, "init_velocity_std_km_p_sec": 1e-6, "filter_noise_type": "continuous_white_noise",
                                     "filter_noise_magnitude": 3e-14, "random_seed": rng.randrange(1, 2**31)})
        members = [{"tag": "base", "config": cfg, "plan": [{"seconds": step * n}]}]
        kinds = rng.sample(["divide", "split", "shift", "shift"], 2)
        for kind in kinds:
            if kind == "divide":
                ms = [m for m in (2, 3, 5, 4) if step % m == 0 and step // m >= 2]
                if not ms:
                    continue
                m = rng.choice(ms)
                c2 = copy.deepcopy(cfg)
                c2["time"]["physics_step_sec"] = step // m
                c2["time"]["output_step_sec"] = step // m
                c2["propagation"]["truth_simulation_only"] = True
                members.append({"tag": f"divide-{m}", "config": c2, "plan": [{"seconds": step * n}], "ratio": m})
            elif kind == "split" and n >= 2:
                cuts = sorted(rng.sample(range(1, n), min(n - 1, rng.choice([1, 2, 3]))))
                c2 = copy.deepcopy(cfg)
                c2["propagation"]["truth_simulation_only"] = True
                members.append({"tag": "split", "config": c2, "plan": [{"seconds": c * step} for c in cuts] + [{"seconds": n * step}]})
            elif kind == "shift" and n >= 2:
                members.append({"tag": "shift", "k": rng.randrange(1, n)})
        # the harness as the agent: the scenario's own dynamics class driven directly - one call over the whole span, and twin objects whose start
        # date lies a drawn offset earlier (sub-second, odd, whole days) with the elapsed seconds making up for it
        direct = {"one_call": rng.random() < 0.7, "offsets": [rng.choice([0.25, 0.5, 0.75, 1.0, 600.5, 3599.0, 43200.75, 86400.0, 86400.0 * rng.randrange(2, 30), rng.uniform(0.001, 86400.0)])
                                                            for _ in range(rng.choice([0, 1, 2]))]}
        return {"config": cfg, "plan": members[0]["plan"], "members": members, "direct": direct, "schedule": {"name": "seeded", "seed": rng.randrange(2**31)}, "job_seed": rng.randrange(2**31)}

    def sample_view(self, case):
        c = case["config"]
        return {"time": c["time"], "model": c["propagation"]["propagation_model"], "integrator": c["propagation"]["integration_method"],
                "geopotential": c["geopotential"], "perturbations": c["perturbations"], "members": [m["tag"] for m in case["members"]],
                "orbits_r0_km": [round(float(np.linalg.norm(t["state"]["position"])), 1) for t in c["engines"][0]["targets"]]}

    def run(self, case: dict) -> dict:  # noqa: C901, PLR0912, PLR0915
        res = result_template()
        viol, cnt = res["violations"], res["counters"]
        res["key"] = jdigest(case["members"])
        S, step, out, n = time_info(case)
        two_body = case["config"]["propagation"]["propagation_model"] == "two_body"
        tol = res["tolerances"]

        def upd(name, val, lim):
            tol[name] = [max(tol.get(name, [0.0, lim])[0], val), lim]

        def run_member_here(arg):
            cfg, plan = arg
            c = {"config": cfg, "plan": plan, "schedule": case.get("schedule"), "job_seed": case.get("job_seed")}
            ctx = drive(c)
            try:
                tmp = result_template()
                aborted = note_abort(ctx, tmp)
                snaps = probes.of_kind("snap")
                batches = probes.of_kind("batch")
                bulk = None
                direct = None
                if not aborted and ctx.app is not None:
                    bulk = self._bulk(ctx.app, cfg)
                    if cfg is case["config"] and case.get("direct"):
                        direct = self._drive_directly(ctx.app, cfg, case["direct"])
                return truth_of(snaps), batches, aborted, bulk, direct, dict(tmp["counters"])
            finally:
                cleanup(ctx)

        def run_member(cfg, plan):
            # each member is a scenario run of its own: in a fresh fork, so that nothing a run leaves at module or class level reaches the next
            truth, batches, aborted, bulk, direct, counters = fork_call(run_member_here, (cfg, plan), self.per_run_timeout_s * 4)      # the run as a whole is under the pool's time limit
            for kk, vv in counters.items():
                res["counters"][kk] = res["counters"].get(kk, 0) + vv
            if direct is not None:
                self._direct = direct
            return truth, batches, aborted, bulk

        base_cfg = case["config"]
        self._direct = None
        base, batches, aborted, bulk = run_member(base_cfg, case["plan"])
        if aborted or not base:
            res["skipped"] = "base-aborted"
            return res
        init = {t["id"]: np.array(t["state"]["position"] + t["state"]["velocity"], dtype=float) for t in base_cfg["engines"][0]["targets"]}
        compared = 0
        # (c) closed form and conservation
        if two_body:
            for tid, x0 in init.items():
                e0, h0 = kepler.energy(x0), kepler.ang_mom(x0)
                for k in sorted(base):
                    if tid not in base[k]:
                        continue
                    ref = kepler.propagate(x0, k * step)
                    got = base[k][tid]
                    dp, dv = float(np.linalg.norm(ref[:3] - got[:3])), float(np.linalg.norm(ref[3:] - got[3:]))
                    KEP_POS, KEP_VEL = limits(k * step, got, factor=20.0)
                    upd("kepler_pos_ratio_to_limit", dp / KEP_POS, 1.0)
                    upd("kepler_vel_ratio_to_limit", dv / KEP_VEL, 1.0)
                    upd("kepler_pos_km_measured", dp, KEP_POS)
                    if over(dp, KEP_POS) or over(dv, KEP_VEL):
                        viol.append({"clause": "kepler-mismatch", "key": base_cfg["propagation"]["integration_method"],
                                     "detail": f"target {tid} at t={k * step}s: propagated state is {dp:.3e} km / {dv:.3e} km/s from the closed-form Kepler solution"})
                        break
                    de = abs(kepler.energy(got) - e0) / abs(e0)
                    dh = float(np.linalg.norm(kepler.ang_mom(got) - h0) / np.linalg.norm(h0))
                    upd("energy_relative", de, CONS_REL)
                    upd("angular_momentum_relative", dh, CONS_REL)
                    if over(de, CONS_REL) or over(dh, CONS_REL):
                        viol.append({"clause": "not-conservative", "key": "two-body", "detail": f"target {tid} at t={k * step}s: energy drift {de:.3e}, angular momentum drift {dh:.3e} (relative)"})
                        break
                    compared += 1
            cnt["kepler_epochs"] = compared
        # (d) batch monitor and bulk grid
        for b in batches:
            upd("batch_vs_single_pos_ratio_to_limit", b["dp"] / b["lp"], 1.0)
            upd("batch_vs_single_vel_ratio_to_limit", b["dv"] / b["lv"], 1.0)
            cnt["batch_propagations_checked"] = cnt.get("batch_propagations_checked", 0) + 1
            if over(b["dp"], b["lp"]) or over(b["dv"], b["lv"]):
                viol.append({"clause": "batch-differs-from-single", "key": b["cls"],
                             "detail": f"a (6,{b['K']}) batch propagated over {b['span']}s differs from propagating its columns one at a time by {b['dp']:.3e} km / {b['dv']:.3e} km/s"})
                break
        if bulk is not None:
            for tid, arr in bulk.items():
                for k in sorted(base):
                    if k == 0 or tid not in base[k] or k - 1 >= arr.shape[1]:
                        continue
                    dp, dv = float(np.linalg.norm(arr[:3, k - 1] - base[k][tid][:3])), float(np.linalg.norm(arr[3:, k - 1] - base[k][tid][3:]))
                    REL_POS, REL_VEL = limits(k * step, base[k][tid])
                    upd("bulk_vs_stepped_pos_ratio_to_limit", dp / REL_POS, 1.0)
                    upd("bulk_vs_stepped_vel_ratio_to_limit", dv / REL_VEL, 1.0)
                    cnt["bulk_epochs_checked"] = cnt.get("bulk_epochs_checked", 0) + 1
                    if over(dp, REL_POS) or over(dv, REL_VEL):
                        viol.append({"clause": "bulk-differs-from-stepped", "key": "propagateBulk",
                                     "detail": f"target {tid}: propagateBulk over the epoch grid gives a state {dp:.3e} km / {dv:.3e} km/s from the stepped run at t={k * step}s"})
                        break
        # the dynamics object driven directly by the harness
        for d in (self._direct or []):
            if d["kind"] == "layout":
                lp, _lv = limits(d["span"], d["ref"])
                upd("batch_layout_pos_ratio_to_limit", d["worst"] / lp if np.isfinite(d["worst"]) else 1e9, 1.0)
                cnt["direct_batch_layouts"] = cnt.get("direct_batch_layouts", 0) + 1
                if over(d["worst"], lp):
                    viol.append({"clause": "batch-differs-from-single", "key": "memory-layout",
                                 "detail": f"a batch of states handed over as a {d['layout']} (6, K) array and propagated over {d['span']}s differs from propagating its columns one at a time by {d['worst']:.3e} km"})
                    break
                continue
            k = max(base)
            if d["target"] not in base[k]:
                continue
            ref = base[k][d["target"]]
            dp, dv = float(np.linalg.norm(d["state"][:3] - ref[:3])), float(np.linalg.norm(d["state"][3:] - ref[3:]))
            REL_POS, REL_VEL = limits(k * step, ref)
            name = "one_call" if d["kind"] == "one-call" else "start_date_offset"
            if d["kind"] == "offset" and d.get("acc_unavailable"):
                cnt["acceleration_probe_unavailable"] = cnt.get("acceleration_probe_unavailable", 0) + 1
            if d["kind"] == "offset":
                # Julian dates resolve 40 us: the two descriptions of an epoch can differ by ~1e-4 s, i.e. 1e-8 rad of Earth rotation acting on
                # tesseral terms of ~1e-6 of the central acceleration; a slip of a quarter second is a thousand times that
                upd("start_date_offset_acceleration_ratio_to_allowance", d["acc_rel"], 1.0)
                if over(d["acc_rel"], 1.0):
                    viol.append({"clause": "epoch-split-dependence", "key": "start-date-offset/acceleration",
                                 "detail": f"target {d['target']}: at the same state and absolute epoch the acceleration differs by {d['acc_rel']:.1f}x what an epoch mismatch of 2e-4 s (Julian-date resolution) explains, between start date + elapsed and "
                                           f"(start date - {d['offset']!r}s) + (elapsed + {d['offset']!r}s) (geopotential {base_cfg['geopotential']}, perturbations {base_cfg['perturbations']})"})
                    break
            upd(f"{name}_pos_ratio_to_limit", dp / REL_POS, 1.0)
            upd(f"{name}_vel_ratio_to_limit", dv / REL_VEL, 1.0)
            cnt[f"direct_{name}"] = cnt.get(f"direct_{name}", 0) + 1
            compared += 1
            if over(dp, REL_POS) or over(dv, REL_VEL):
                if d["kind"] == "one-call":
                    viol.append({"clause": "not-composable", "key": "one-call",
                                 "detail": f"target {d['target']}: one propagate call over [0, {k * step}s] ends {dp:.3e} km / {dv:.3e} km/s from the run stepped in {k} calls of {step}s "
                                           f"(model {base_cfg['propagation']['propagation_model']}, {base_cfg['propagation']['integration_method']}, perturbations {base_cfg['perturbations']})"})
                else:
                    viol.append({"clause": "epoch-split-dependence", "key": "start-date-offset",
                                 "detail": f"target {d['target']}: the same absolute epochs described as (start date - {d['offset']!r}s) + (elapsed + {d['offset']!r}s) give a state {dp:.3e} km / {dv:.3e} km/s from the "
                                           f"base run at t={k * step}s (geopotential {base_cfg['geopotential']}, perturbations {base_cfg['perturbations']})"})
                break
        # (a) (b) relations
        members_run = 1
        for m in case["members"][1:]:
            if viol:
                break
            if m["tag"] == "shift":
                k0 = m["k"]
                if k0 not in base:
                    continue
                c2 = copy.deepcopy(base_cfg)
                c2["propagation"]["truth_simulation_only"] = True
                c2["time"]["start_timestamp"] = fmt_ts(S + dt.timedelta(seconds=k0 * step))
                for t in c2["engines"][0]["targets"]:
                    st = base[k0][t["id"]]
                    t["state"]["position"] = [float(x) for x in st[:3]]
                    t["state"]["velocity"] = [float(x) for x in st[3:]]
                other, _b, ab, _bulk = run_member(c2, [{"seconds": (n - k0) * step}])
                mapping = {j: k0 + j for j in other}
            else:
                other, _b, ab, _bulk = run_member(m["config"], m["plan"])
                ratio = m.get("ratio", 1)
                mapping = {j: j // ratio for j in other if j % ratio == 0}
            if ab:
                cnt["member_aborted"] = cnt.get("member_aborted", 0) + 1
                continue
            members_run += 1
            cnt[f"member_{m['tag'].split('-')[0]}"] = cnt.get(f"member_{m['tag'].split('-')[0]}", 0) + 1
            for j, k in sorted(mapping.items()):
                if k not in base or (m["tag"] == "shift" and j == 0):
                    continue
                for tid in base[k]:
                    if tid not in other[j]:
                        continue
                    dp = float(np.linalg.norm(other[j][tid][:3] - base[k][tid][:3]))
                    dv = float(np.linalg.norm(other[j][tid][3:] - base[k][tid][3:]))
                    name = "shifted_start" if m["tag"] == "shift" else "split"
                    REL_POS, REL_VEL = limits(k * step, base[k][tid])
                    upd(f"{name}_pos_ratio_to_limit", dp / REL_POS, 1.0)
                    upd(f"{name}_vel_ratio_to_limit", dv / REL_VEL, 1.0)
                    upd(f"{name}_pos_km_measured", dp, REL_POS)
                    compared += 1
                    if over(dp, REL_POS) or over(dv, REL_VEL):
                        what = ("started {} steps later from the copied states".format(m["k"]) if m["tag"] == "shift" else m["tag"])
                        viol.append({"clause": "epoch-split-dependence" if m["tag"] == "shift" else "not-composable", "key": m["tag"].split("-")[0],
                                     "detail": f"target {tid} at t={k * step}s: the run {what} differs from the base run by {dp:.3e} km / {dv:.3e} km/s "
                                               f"(model {base_cfg['propagation']['propagation_model']}, {base_cfg['propagation']['integration_method']}, step {step}s)"})
                        break
                if viol:
                    break
        res["nontrivial"] = members_run >= 2 and compared > 0
        cnt["state_comparisons"] = compared
        cnt["model_" + base_cfg["propagation"]["propagation_model"]] = 1
        cnt["integrator_" + base_cfg["propagation"]["integration_method"]] = 1
        if step * n >= 43200:
            cnt["span_half_day_or_more"] = 1
        res["sim_seconds"] = float(step * n * members_run)
        res["digest"] = jdigest([viol, sorted((k, [float(x).hex() for x in v]) for k0 in base for k, v in ((f"{k0}/{t}", s) for t, s in base[k0].items()))])
        return res

    def _drive_directly(self, app, cfg, direct):
        from resonaate.dynamics.special_perturbations import SpecialPerturbations
        from resonaate.physics.time.stardate import JulianDate

        S, step, out, n = time_info({"config": cfg})
        T = float(n * step)
        results = []
        for t in cfg["engines"][0]["targets"]:
            agent = app.target_agents.get(t["id"])
            if agent is None:
                continue
            x0 = np.array(t["state"]["position"] + t["state"]["velocity"], dtype=float)
            if direct.get("one_call"):
                dyn = pickle.loads(pickle.dumps(agent.dynamics))
                results.append({"kind": "one-call", "target": t["id"], "state": np.asarray(dyn.propagate(0.0, T, x0.copy()), dtype=float).reshape(-1)[:6]})
            if direct.get("one_call") and len(cfg["engines"][0]["targets"]) >= 1:
                # several states at once, handed over in different memory layouts (row-major, column-major, a strided view): same states as one by one
                others = [np.array(t2["state"]["position"] + t2["state"]["velocity"], dtype=float) for t2 in cfg["engines"][0]["targets"]]
                cols = [x0] + [o for o in others if o is not x0][:2] + [x0 * (1 + 1e-6)]
                rows = np.array(cols)                       # (K, 6), row-major
                wide = np.zeros((6, 2 * len(cols)))
                wide[:, ::2] = rows.T
                layouts = {"row-major": np.ascontiguousarray(rows.T), "column-major": rows.T, "fortran": np.asfortranarray(rows.T), "strided": wide[:, ::2]}
                span = float(min(T, max(step, 600.0)))
                singles = [np.asarray(pickle.loads(pickle.dumps(agent.dynamics)).propagate(0.0, span, c.copy()), dtype=float).reshape(-1)[:6] for c in cols]
                for lname, arr in layouts.items():
                    dyn = pickle.loads(pickle.dumps(agent.dynamics))
                    try:
                        out = np.asarray(dyn.propagate(0.0, span, arr), dtype=float)
                        worst = max(float(np.linalg.norm(out[:, j] - singles[j])) for j in range(len(cols))) if out.shape == (6, len(cols)) else float("inf")
                    except Exception as exc:  # noqa: BLE001 - e.g. a scrambled state below the surface
                        worst = float("inf")
                        lname = f"{lname} ({type(exc).__name__})"
                    results.append({"kind": "layout", "layout": lname, "target": t["id"], "worst": worst, "span": span, "ref": singles[0]})
            if isinstance(agent.dynamics, SpecialPerturbations):
                sc = app.scenario_config
                for off in direct.get("offsets", []):
                    twin = SpecialPerturbations(JulianDate(float(agent.dynamics.init_julian_date) - off / 86400.0), sc.geopotential, sc.perturbations, agent.dynamics.sat_ratio,
                                                method=sc.propagation.integration_method)
                    # same absolute epochs, stepped like the base run so that only the description of the epoch differs
                    x = x0.copy()
                    worst = 0.0
                    unavailable = False
                    for k in range(n):
                        # the force itself, at the same state and absolute epoch (the trajectory comparison is blunted by the integrator's own
                        # step-size noise; this one is a function-level relation, rounding only)
                        try:
                            a0 = np.asarray(agent.dynamics._differentialEquation(float(k * step), x.copy(), check_collision=False), dtype=float)[3:]  # noqa: SLF001
                            a1 = np.asarray(twin._differentialEquation(float(off + k * step), x.copy(), check_collision=False), dtype=float)[3:]  # noqa: SLF001
                            # how fast the acceleration changes with the epoch at this state (finite difference over 1 ms): the two descriptions of the
                            # epoch agree to the resolution of Julian dates (three roundings of 2e-5 s), a slip of a quarter second is 1000x that
                            a2 = np.asarray(agent.dynamics._differentialEquation(float(k * step) + 1e-3, x.copy(), check_collision=False), dtype=float)[3:]  # noqa: SLF001
                            allowed = float(np.linalg.norm(a2 - a0)) / 1e-3 * 2e-4 + 1e-14 * float(np.linalg.norm(a0))
                            worst = max(worst, float(np.linalg.norm(a1 - a0)) / allowed)
                        except Exception:  # noqa: BLE001 - the derivative is not a public entry point: if it cannot be called on its own, only trajectories are compared
                            worst = max(worst, 0.0)
                            unavailable = True
                        x = np.asarray(twin.propagate(off + k * step, off + (k + 1) * step, x), dtype=float).reshape(-1)[:6]
                    results.append({"kind": "offset", "offset": off, "target": t["id"], "state": x, "acc_rel": worst, "acc_unavailable": unavailable})
        return results

    def _bulk(self, app, cfg):
        S, step, out, n = time_info({"config": cfg})
        out_d = {}
        for t in cfg["engines"][0]["targets"]:
            agent = app.target_agents.get(t["id"])
            if agent is None:
                continue
            x0 = np.array(t["state"]["position"] + t["state"]["velocity"], dtype=float)
            dyn = pickle.loads(pickle.dumps(agent.dynamics))
            times = [float(k * step) for k in range(0, n + 1)]
            arr = dyn.propagateBulk(times, x0.reshape(6, 1))
            out_d[t["id"]] = np.asarray(arr).reshape(6, -1)
        return out_d

    def shrink_candidates(self, case, violation):
        ms = case["members"]
        if len(ms) > 2:
            for i in range(1, len(ms)):
                yield variant(case, f"drop-member-{i}", lambda c, i=i: c["members"].pop(i))
        tg = case["config"]["engines"][0]["targets"]
        if len(tg) > 1:
            for t in tg:
                def drop(c, tid=t["id"]):
                    c["config"]["engines"][0]["targets"] = [x for x in c["config"]["engines"][0]["targets"] if x["id"] != tid]
                    for m in c["members"]:
                        if "config" in m:
                            m["config"]["engines"][0]["targets"] = [x for x in m["config"]["engines"][0]["targets"] if x["id"] != tid]
                yield variant(case, f"drop-target-{t['id']}", drop)
        if not case["config"]["propagation"]["truth_simulation_only"]:
            yield variant(case, "truth-only", lambda c: c["config"]["propagation"].__setitem__("truth_simulation_only", True))
        p = case["config"]["perturbations"]
        if p["third_bodies"]:
            def no3(c):
                c["config"]["perturbations"]["third_bodies"] = []
                for m in c["members"]:
                    if "config" in m:
                        m["config"]["perturbations"]["third_bodies"] = []
            yield variant(case, "no-third-bodies", no3)


CHECK = C03()
