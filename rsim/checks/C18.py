"""C18 - multiple-model estimation keeps valid probabilities and moment-matched output.

The repo's MMAE path end to end: adaptive estimation configured (SMM or GPB1), a persistently
visible target over a radar site, an unplanned impulse -> maneuver detection -> hypothesis
generation from the *stored* observation / estimate history -> adaptive updates -> pruning /
convergence -> filter handed back.  Every adaptive update is judged against rsim's own Bayes rule
(log space) and mixture moments.
"""

from __future__ import annotations

import datetime as dt
import math
import random

import numpy as np

from .. import gen, probes, simray
from ..core import Check, jdigest, result_template
from ..run import cleanup, fmt_ts, history_digest, wrap_method
from .common import drive, generic_shrinks, raised_in_harness, time_info, variant

FPE = 1e-15


def install_mmae_probe():
    from resonaate.estimation.adaptive.adaptive_filter import AdaptiveFilter
    from resonaate.estimation.adaptive.gpb1 import GeneralizedPseudoBayesian1
    from resonaate.estimation.adaptive.smm import StaticMultipleModel

    def model_view(self):
        out = []
        for m in self.models:
            S = np.array(getattr(m, "innov_cvr", np.zeros((0, 0))), dtype=float)
            out.append({"nis": float(getattr(m, "nis", float("nan"))), "S": S.copy(), "est_x": np.array(m.est_x, dtype=float).copy(), "est_p": np.array(m.est_p, dtype=float).copy(),
                        "pred_x": np.array(m.pred_x, dtype=float).copy()})
        return out

    def before_update(self, observations, *a, **k):
        probes.rec("mmae_update_begin", target=self.target_id, cls=type(self).__name__, n=len(self.models), weights=np.array(self.model_weights, dtype=float).copy(),
                   mode_p=np.array(self.mode_probabilities, dtype=float).copy(), n_obs=len(observations), prune_threshold=self.prune_threshold, prune_percentage=self.prune_percentage,
                   mix_ratio=getattr(self, "mix_ratio", None), time=float(self.time))

    def after_update(self, tok, res, observations, *a, **k):
        cf = self.converged_filter
        probes.rec("mmae_update_end", target=self.target_id, n=len(self.models), weights=np.array(self.model_weights, dtype=float).copy(), flags=str(self.flags),
                   est_x=np.array(self.est_x, dtype=float).copy(), est_p=np.array(self.est_p, dtype=float).copy(),
                   converged_x=None if cf is None else np.array(cf.est_x, dtype=float).copy(), converged_p=None if cf is None else np.array(cf.est_p, dtype=float).copy(),
                   converged_time=None if cf is None else float(cf.time), time=float(self.time), model_times=[float(m.time) for m in self.models],
                   models=model_view(self))

    for cls in (StaticMultipleModel, GeneralizedPseudoBayesian1):
        wrap_method(cls, "update", before=before_update, after=after_update)

    def after_compile(self, tok, res, observations, *a, **k):
        probes.rec("mmae_compile", target=self.target_id, n=len(self.models), weights=np.array(self.model_weights, dtype=float).copy(), est_x=np.array(self.est_x, dtype=float).copy(),
                   est_p=np.array(self.est_p, dtype=float).copy(), models=model_view(self), n_obs=len(observations), dim=None if not observations else int(np.asarray(self.true_y).shape[0]))

    wrap_method(AdaptiveFilter, "_compileUpdateStep", after=after_compile)

    def after_init(self, tok, res, *a, **k):
        probes.rec("mmae_init", target=self.target_id, started=bool(res), n=int(self.num_models))

    wrap_method(AdaptiveFilter, "initialize", after=after_init)


def bayes(prior, models, dim):
    """Posterior model probabilities: prior x N(innovation; 0, S), renormalised - in log space."""
    lw = []
    for p, m in zip(prior, models):
        sign, logdet = np.linalg.slogdet(m["S"])
        ll = -0.5 * m["nis"] - 0.5 * (dim * math.log(2 * math.pi) + logdet)
        lw.append((math.log(p) if p > 0 else -math.inf) + ll)
    lw = np.array(lw)
    mx = np.max(lw)
    if not np.isfinite(mx):
        return None, -math.inf
    total = mx + math.log(float(np.sum(np.exp(lw - mx))))
    return np.exp(lw - total), total


class C18(Check):
    pid = "C18"
    level = "exploration"
    quick_budget_s = 75.0
    thorough_budget_s = 1200.0
    per_run_timeout_s = 300.0
    rule = ("case = full run with adaptive estimation (SMM / GPB1; model interval, observation window, prune threshold and percentage drawn), a persistently visible target and an "
            "unplanned impulse of drawn size; every adaptive update is judged; non-trivial = multiple-model estimation started with >= 2 models; distinct = digest of the configuration")
    assumptions = [
        "reference Bayes rule evaluated in log space from the per-model NIS and innovation covariance the real models computed (the per-model UKF updates themselves are trusted here, see C16)",
        "when the total probability mass underflows below 1e-15 the documented fallback (uniform weights / uniform likelihoods) is applied by the reference as well; cases within dim/2*log(2 pi) (log scale) of that threshold are indeterminate",
        "GPB1 hands back the mixture when it closes with several models alive; 'surviving model' is only checked when one model remains",
    ]
    real_components = ["EstimateAgent MMAE hand-over", "AdaptiveFilter.initialize (history from the output DB, propagateBulk, Lambert hypotheses)", "StaticMultipleModel / GeneralizedPseudoBayesian1 update, prune, convergence",
                       "per-model UKFs", "maneuver detection", "SQLite queries (fetchObservationsByJDInterval / fetchEstimatesByJDInterval)"]
    stub_components = ["ray (rsim.simray)"]

    def setup(self, tier):
        probes.install_step_recorder()
        install_mmae_probe()

    def gen(self, rng: random.Random, tier: str, index: int) -> dict:
        step = rng.choice([60, 120, 300])
        nsteps = rng.randrange(7, 13)
        start = gen.draw_start(rng, gen.EOP_FIRST, gen.EOP_LAST)
        site = {"latitude": rng.uniform(-60, 60), "longitude": rng.uniform(-180, 180), "altitude": rng.uniform(0, 2)}
        n_s = rng.choice([1, 1, 2])
        sensors = [gen.ground_sensor(90001 + i, site["latitude"] + 0.01 * i, site["longitude"], site["altitude"],
                                     gen.sensor_block(rng.choice(["adv_radar", "radar"]), coarse=False, field_of_view={"fov_shape": "conic", "cone_angle": 30.0})) for i in range(n_s)]
        st = gen.place_over_site(rng, site, start, 0, rng.uniform(0, 360), rng.uniform(30, 80), rng.uniform(36000, 40000), "corotate")
        tgt = gen.eci_target(10001, st[:3], st[3:])
        k_imp = rng.randrange(2, 5)
        mag = 10 ** rng.uniform(-3.5, -1.3)
        v = np.array([rng.gauss(0, 1) for _ in range(3)])
        v = (v / np.linalg.norm(v) * mag).tolist()
        ev = [{"scope": "agent_propagation", "scope_instance_id": 10001, "event_type": "impulse", "start_time": fmt_ts(start + dt.timedelta(seconds=step * k_imp + rng.randrange(1, step))),
               "thrust_vector": v, "thrust_frame": rng.choice(["ntw", "eci"]), "planned": False}]
        name = rng.choice(["smm", "gpb1"])
        af = {"name": name, "orbit_determination": rng.choice(["lambert_universal", "lambert_battin"]), "model_interval": rng.choice([20, 30, 60, step, 2 * step]), "stacking_method": "eci_stack",
              "observation_window": rng.choice([1, 1, 2, 3]), "prune_threshold": rng.choice([1e-20, 1e-10, 1e-3, 0.05, 0.05, 0.2, 0.6]), "prune_percentage": rng.choice([0.9, 0.995, 0.997])}
        if name == "gpb1":
            af["mix_ratio"] = rng.choice([1.5, 5.0, 50.0])
        est = {"sequential_filter": {"name": "unscented_kalman_filter", "dynamics_model": "two_body", "alpha": rng.choice([0.05, 0.001, 0.5]), "beta": 2.0,
                                     "maneuver_detection": {"name": rng.choice(["standard_nis", "standard_nis", "sliding_nis"]), "threshold": rng.choice([0.01, 0.001, 0.05])},
                                     "adaptive_estimation": True},
               "adaptive_filter": af}
        cfg = gen.base_config(start, step, nsteps, [gen.engine_block(1, sensors, [tgt], "MunkresDecision" if n_s == 1 else rng.choice(["MunkresDecision", "AllVisibleDecision"]))], model="two_body",
                              seed=rng.randrange(1, 2**31), estimation=est, events=ev, out_step=step * rng.choice([1, 1, 2]))
        if cfg["engines"][0]["decision"]["name"] == "AllVisibleDecision":
            for s in sensors:
                s["sensor"]["type"] = "adv_radar"
        if rng.random() < 0.3:
            # steps without any observation while multiple-model estimation may be running: the observing sensors leave (agent_removal) and a
            # replacement joins at the same site a step or two later; a sensor on the far side of the Earth keeps the engine populated
            observing = [s0["id"] for s0 in sensors]
            far = gen.ground_sensor(90009, -site["latitude"], ((site["longitude"] + 360.0) % 360.0) - 180.0, 0.0, gen.sensor_block("adv_radar", coarse=False))
            cfg["engines"][0]["sensors"].append(far)
            k_gap = k_imp + rng.randrange(2, 5)
            for sid0 in observing:
                cfg["events"].append({"scope": "scenario_step", "scope_instance_id": 0, "event_type": "agent_removal", "start_time": fmt_ts(start + dt.timedelta(seconds=step * k_gap)),
                                      "tasking_engine_id": 1, "agent_id": sid0, "agent_type": "sensor"})
            back = gen.ground_sensor(90005, site["latitude"], site["longitude"], site["altitude"], gen.sensor_block("adv_radar", coarse=False, field_of_view={"fov_shape": "conic", "cone_angle": 30.0}))
            cfg["events"].append({"scope": "scenario_step", "scope_instance_id": 0, "event_type": "sensor_addition", "start_time": fmt_ts(start + dt.timedelta(seconds=step * (k_gap + rng.randrange(1, 3)))),
                                  "tasking_engine_id": 1, "sensor_agent": back})
        return {"config": cfg, "plan": [{"seconds": nsteps * step}], "schedule": {"name": "seeded", "seed": rng.randrange(2**31)}, "job_seed": rng.randrange(2**31)}

    def sample_view(self, case):
        c = case["config"]
        return {"time": c["time"], "adaptive_filter": c["estimation"]["adaptive_filter"], "detector": c["estimation"]["sequential_filter"]["maneuver_detection"],
                "impulse": {k: c["events"][0][k] for k in ("start_time", "thrust_vector", "thrust_frame")}, "sensors": [s["sensor"]["type"] for s in c["engines"][0]["sensors"]]}

    def run(self, case: dict) -> dict:  # noqa: C901, PLR0912, PLR0915
        res = result_template()
        viol, cnt = res["violations"], res["counters"]
        res["key"] = jdigest(case["config"])
        S, step, out, ncfg = time_info(case)
        ctx = drive(case)
        try:
            started = [r for r in probes.of_kind("mmae_init") if r["started"]]
            if ctx.error is not None:
                if raised_in_harness(ctx.error):
                    raise ctx.error
                name = type(ctx.error).__name__
                cnt["aborted_" + name] = 1
                in_init = False
                tb = ctx.error.__traceback__
                while tb is not None:
                    if tb.tb_frame.f_code.co_name == "initialize" and tb.tb_frame.f_code.co_filename.endswith("adaptive_filter.py"):
                        in_init = True
                    tb = tb.tb_next
                if in_init:
                    # building the hypotheses of a (further) multiple-model start failed: before estimation is active, outside the statement (DESIGN section 5, notes)
                    cnt["aborted_in_mmae_initialisation"] = 1
                elif started and name not in ("LinAlgError", "EarthCollisionError"):
                    viol.append({"clause": "mmae-run-aborted", "key": name,
                                 "detail": f"multiple-model estimation had started (step {started[0]['step']}, {started[0]['n']} models); the run aborted in step {probes.STATE['step']} with {name}: {str(ctx.error)[:200]}"})
            for r in probes.of_kind("mmae_init"):
                cnt["mmae_initialize_calls"] = cnt.get("mmae_initialize_calls", 0) + 1
                if r["started"]:
                    cnt["mmae_started"] = cnt.get("mmae_started", 0) + 1
                    cnt["models_at_start_total"] = cnt.get("models_at_start_total", 0) + r["n"]
            # walk the log: begin -> compile (post Bayes) [-> compile (post prune)] -> end
            log = [r for r in probes.LOG if r["kind"].startswith("mmae_")]
            i = 0
            snaps = {sn["k"]: sn for sn in probes.of_kind("snap")}
            while i < len(log):
                r = log[i]
                if r["kind"] != "mmae_update_begin":
                    i += 1
                    continue
                j = i + 1
                comps = []
                end = None
                while j < len(log) and log[j]["kind"] != "mmae_update_begin":
                    if log[j]["kind"] == "mmae_compile":
                        comps.append(log[j])
                    elif log[j]["kind"] == "mmae_update_end":
                        end = log[j]
                        break
                    j += 1
                i = j + 1
                if end is not None and len(end["models"]) == len(end["weights"]) >= 1 and np.all(np.isfinite(end["weights"])):
                    # whatever path the update took (with or without observations, pruning, closure): what the filter now reports is the mixture of its models
                    ww = end["weights"]
                    mean = sum(wi * m["est_x"] for wi, m in zip(ww, end["models"]))
                    cov = sum(wi * (m["est_p"] + np.outer(m["est_x"] - mean, m["est_x"] - mean)) for wi, m in zip(ww, end["models"]))
                    where0 = f"step {r['step']} target {r['target']} {r['cls']} with {r['n']} models, {r['n_obs']} observations"
                    cnt["end_of_update_mixtures_checked"] = cnt.get("end_of_update_mixtures_checked", 0) + 1
                    if not r["n_obs"]:
                        cnt["adaptive_updates_without_observations"] = cnt.get("adaptive_updates_without_observations", 0) + 1
                    if not np.allclose(end["est_x"], mean, rtol=1e-9, atol=1e-12):
                        viol.append({"clause": "combined-mean", "key": r["cls"] + ("/no-observations" if not r["n_obs"] else ""),
                                     "detail": f"{where0}: after the update the combined estimate differs from the probability-weighted mean of the models by {float(np.max(np.abs(end['est_x'] - mean))):.3e}"})
                        continue
                    if not np.allclose(end["est_p"], cov, rtol=1e-9, atol=1e-18):
                        viol.append({"clause": "combined-covariance", "key": r["cls"] + ("/no-observations" if not r["n_obs"] else ""),
                                     "detail": f"{where0}: after the update the combined covariance differs from the moment-matched mixture covariance by {float(np.max(np.abs(end['est_p'] - cov))):.3e}"})
                        continue
                if end is None or not comps:
                    continue
                cnt["adaptive_updates"] = cnt.get("adaptive_updates", 0) + 1
                af = case["config"]["estimation"]["adaptive_filter"]
                want_cls = {"smm": "StaticMultipleModel", "gpb1": "GeneralizedPseudoBayesian1"}[af["name"]]
                if (r["cls"], r["prune_threshold"], r["prune_percentage"]) != (want_cls, af["prune_threshold"], af["prune_percentage"]) or (af.get("mix_ratio") is not None and r["mix_ratio"] != af["mix_ratio"]):
                    viol.append({"clause": "adaptive-filter-differs-from-its-configuration", "key": af["name"],
                                 "detail": f"configured {af}; running {r['cls']} with prune threshold {r['prune_threshold']}, prune percentage {r['prune_percentage']}, mix ratio {r['mix_ratio']}"})
                    break
                where = f"step {r['step']} target {r['target']} {r['cls']} with {r['n']} models"
                A = comps[0]
                w = A["weights"]
                if not (np.all(np.isfinite(w)) and np.all(w >= 0) and abs(float(w.sum()) - 1) <= 1e-12 and len(w) >= 1):
                    viol.append({"clause": "invalid-probabilities", "key": r["cls"], "detail": f"{where}: weights after the update {w.tolist()} (sum {float(w.sum())!r})"})
                    continue
                if r["n_obs"] and A["dim"]:
                    prior = r["weights"] if r["cls"] == "StaticMultipleModel" else r["mode_p"]
                    ref, total = bayes(prior, A["models"], A["dim"])
                    thr = math.log(FPE)
                    # the code normalises the Gaussian with the measurement dimension of the *previous* compiled
                    # update (0 for the first one): a constant factor that cancels in the renormalisation and
                    # only moves the underflow threshold by up to dim/2*log(2 pi); treat that band as indeterminate
                    band = 0.5 * A["dim"] * math.log(2 * math.pi) + 1e-6
                    if ref is None or total < thr - band:
                        cnt["likelihood_underflow_reset"] = cnt.get("likelihood_underflow_reset", 0) + 1
                        if r["cls"] == "StaticMultipleModel":
                            ref = np.ones(len(prior)) / len(prior)
                        else:
                            ref = np.array(prior, dtype=float) / float(np.sum(prior))
                    elif abs(total - thr) <= band:
                        ref = None
                        res["indeterminate"] += 1
                    if ref is not None and not np.allclose(w, ref, rtol=1e-9, atol=1e-12):
                        viol.append({"clause": "not-bayes-rule", "key": r["cls"],
                                     "detail": f"{where}: prior {np.round(prior, 6).tolist()}, per-model NIS {[round(m['nis'], 3) for m in A['models']]}: weights {np.round(w, 9).tolist()} but prior x Gaussian likelihood renormalised is {np.round(ref, 9).tolist()}"})
                        continue
                    cnt["bayes_updates_checked"] = cnt.get("bayes_updates_checked", 0) + 1
                for C in comps:
                    ww = C["weights"]
                    mean = sum(wi * m["est_x"] for wi, m in zip(ww, C["models"]))
                    cov = sum(wi * (m["est_p"] + np.outer(m["est_x"] - mean, m["est_x"] - mean)) for wi, m in zip(ww, C["models"]))
                    if not np.allclose(C["est_x"], mean, rtol=1e-9, atol=1e-12):
                        viol.append({"clause": "combined-mean", "key": r["cls"], "detail": f"{where}: combined estimate differs from the probability-weighted mean by {float(np.max(np.abs(C['est_x'] - mean))):.3e}"})
                        break
                    if not np.allclose(C["est_p"], cov, rtol=1e-9, atol=1e-18):
                        viol.append({"clause": "combined-covariance", "key": r["cls"], "detail": f"{where}: combined covariance differs from the moment-matched mixture covariance by {float(np.max(np.abs(C['est_p'] - cov))):.3e}"})
                        break
                    if float(np.max(np.abs(C["est_p"] - C["est_p"].T))) > 1e-9 * float(np.max(np.abs(C["est_p"]))) or float(np.min(np.linalg.eigvalsh((C["est_p"] + C["est_p"].T) / 2))) < -1e-12 * float(np.max(np.abs(C["est_p"]))):
                        viol.append({"clause": "combined-covariance-not-psd", "key": r["cls"], "detail": f"{where}: combined covariance is not symmetric positive semi-definite"})
                        break
                    cnt["mixtures_checked"] = cnt.get("mixtures_checked", 0) + 1
                if len(comps) > 1:
                    cnt["updates_with_pruning"] = cnt.get("updates_with_pruning", 0) + 1
                    B = comps[-1]
                    if not (len(B["weights"]) >= 1 and abs(float(B["weights"].sum()) - 1) <= 1e-12 and np.all(B["weights"] >= 0)):
                        viol.append({"clause": "invalid-probabilities", "key": "after-prune", "detail": f"{where}: weights after pruning {B['weights'].tolist()}"})
                if end["n"] < 1:
                    viol.append({"clause": "no-model-left", "key": r["cls"], "detail": f"{where}: no model remains"})
                if "ADAPTIVE_ESTIMATION_CLOSE" in end["flags"]:
                    cnt["mmae_closed"] = cnt.get("mmae_closed", 0) + 1
                    if end["converged_x"] is None:
                        viol.append({"clause": "no-filter-handed-back", "key": r["cls"], "detail": f"{where}: estimation closed without a converged filter"})
                    else:
                        if not (np.allclose(end["converged_x"], end["est_x"], rtol=1e-12, atol=0) and np.allclose(end["converged_p"], end["est_p"], rtol=1e-12, atol=0)):
                            viol.append({"clause": "handed-back-filter-differs", "key": r["cls"], "detail": f"{where}: the filter handed back does not carry the combined estimate at closure"})
                        # ... and belongs to the epoch of this update (the agent goes on predicting from the filter's own time)
                        if end["converged_time"] is not None and (abs(end["converged_time"] - end["time"]) > 1e-6 or any(abs(mt - end["time"]) > 1e-6 for mt in end["model_times"])):
                            viol.append({"clause": "handed-back-filter-differs", "key": "time",
                                         "detail": f"{where}: estimation closes at t={end['time']}s (models at {sorted(set(end['model_times']))}) but the filter handed back is at t={end['converged_time']}s"})
                        if end["n"] == 1 and not np.allclose(end["converged_x"], end["models"][0]["est_x"], rtol=1e-9, atol=1e-12):
                            viol.append({"clause": "handed-back-filter-differs", "key": "surviving-model", "detail": f"{where}: one model survived but the filter handed back has a different state"})
                        sn = snaps.get(r["step"])
                        if sn is not None and r["target"] in sn.get("estimates", {}) and not np.allclose(sn["estimates"][r["target"]][0], end["converged_x"], rtol=1e-12, atol=0):
                            later = [x for x in log if x["kind"] == "mmae_update_begin" and x["step"] == r["step"] and x["seq"] > end["seq"]]
                            if not later:
                                viol.append({"clause": "handed-back-filter-differs", "key": "agent", "detail": f"{where}: after the step the estimate agent does not hold the state of the filter handed back"})
            res["nontrivial"] = any(r["n"] >= 2 for r in started)
            res["sim_seconds"] = float(ncfg * step)
            res["faults"]["task_retry"] = simray.STATE.stats["retries"]
            res["digest"] = history_digest(ctx, viol)
        finally:
            cleanup(ctx)
        return res

    def shrink_candidates(self, case, violation):
        yield from (c for c in generic_shrinks(case) if not c.get("_shrunk_by", "").startswith("drop-event"))
        e = case["config"]["engines"][0]
        if len(e["sensors"]) > 1:
            for s in e["sensors"]:
                yield variant(case, f"drop-sensor-{s['id']}", lambda c, sid=s["id"]: c["config"]["engines"][0].__setitem__("sensors", [x for x in c["config"]["engines"][0]["sensors"] if x["id"] != sid]))


CHECK = C18()
