"""Schedule exploration shared by C08 / C07 / C16: run one case under a given simray schedule,
record everything a step produces, check per-run bookkeeping, and compare runs of one case."""

from __future__ import annotations

import itertools
import random

import numpy as np

from .. import probes, simray
from ..run import cleanup, read_db, wrap_method
from .common import drive, raised_in_harness

REL = 1e-9
ABS = 1e-12


def hx(v):
    return None if v is None else float(v).hex()


def hexes(a):
    return tuple(float(x).hex() for x in np.asarray(a, dtype=float).ravel())


def obs_key(o):
    return (hx(o.julian_date), int(o.sensor_id), int(o.target_id), hx(o.azimuth_rad), hx(o.elevation_rad),
            hx(getattr(o, "range_km", None)), hx(getattr(o, "range_rate_km_p_sec", None)))


def miss_key(m):
    return (hx(m.julian_date), int(m.sensor_id), int(m.target_id), str(m.reason))


def install():
    probes.install_step_recorder()
    probes.install_tasking_recorder()
    from resonaate.parallel.tasking_execution import TaskExecutionRegistration
    from resonaate.parallel.tasking_reward_generation import TaskingRewardRegistration

    def before_task(self, results):
        probes.rec("task_result", engine=self._registrant.unique_id, target=int(results.target_id),  # noqa: SLF001
                   obs=[obs_key(o) for o in results.observations], missed=[miss_key(m) for m in results.missed_observations],
                   sensor_info=[(int(d["sensor_id"]), hexes(d["boresight"]), hx(d["time_last_tasked"])) for d in results.sensor_info_list])

    wrap_method(TaskExecutionRegistration, "processResults", before=before_task)

    def before_reward(self, results):
        probes.rec("reward_result", engine=self._registrant.unique_id, estimate=int(results.estimate_id),  # noqa: SLF001
                   visibility=[bool(x) for x in results.visibility], metrics=hexes(results.metric_matrix))

    wrap_method(TaskingRewardRegistration, "processResults", before=before_reward)
    from resonaate.estimation.kalman.unscented_kalman_filter import UnscentedKalmanFilter

    def after_update(self, tok, res, observations, *a, **k):
        if observations:
            probes.rec("ukf_update_order", target=int(self.target_id), order=[obs_key(o) for o in observations],      # with the measured values: one sensor can contribute several observations of a target (primary in one job, serendipitous in others)
                       cond=float(np.linalg.cond(self.innov_cvr)), dx=np.abs(np.array(self.est_x, dtype=float) - np.array(self.pred_x, dtype=float)),
                       dp=float(np.max(np.abs(np.array(self.pred_p) - np.array(self.est_p)))))

    wrap_method(UnscentedKalmanFilter, "update", after=after_update, tag="sched-order")


def observe(case: dict, isolate: bool = False) -> dict:
    """Run the case and condense the probe log into a comparable record.  ``isolate``: in a fresh fork (the probe log then stays in the child)."""
    if isolate:
        from ..core import fork_call

        return fork_call(observe, case)
    ctx = drive(case)
    rec = {"error": None, "numerical": False, "steps": {}, "db": {}, "batches": [], "retries": 0}
    try:
        if ctx.error is not None:
            if raised_in_harness(ctx.error):
                raise ctx.error
            rec["error"] = f"{type(ctx.error).__name__}: {ctx.error}"
            rec["numerical"] = type(ctx.error).__name__ in ("LinAlgError",)
        steps = rec["steps"]
        for r in probes.LOG:
            k = r["step"]
            st = steps.setdefault(k, {"jobs": [], "engines": {}, "reward_jobs": []})
            if r["kind"] == "snap":
                kk = r["k"]
                s2 = steps.setdefault(kk, {"jobs": [], "engines": {}, "reward_jobs": []})
                s2["truth"] = {aid: hexes(v) for aid, v in list(r["targets"].items()) + list(r["sensors"].items())}
                s2["pointing"] = {aid: (hexes(r["boresight"][aid]), hx(r["last_tasked"][aid])) for aid in r["boresight"]}
                s2["estimates"] = {aid: (np.array(x), np.array(p)) for aid, (x, p) in r.get("estimates", {}).items()}
                s2["complete"] = True
            elif r["kind"] == "task_result":
                st["jobs"].append({"engine": r["engine"], "target": r["target"], "obs": r["obs"], "missed": r["missed"], "sensor_info": r["sensor_info"]})
            elif r["kind"] == "ukf_update_order":
                st.setdefault("updates", {})[r["target"]] = r      # a retried job repeats the update on a fresh copy: keep the last
            elif r["kind"] == "reward_result":
                st["reward_jobs"].append((r["engine"], r["estimate"], tuple(r["visibility"]), r["metrics"]))
            elif r["kind"] == "assess_end":
                st["engines"][r["engine"]] = {"targets": r["targets"], "sensors": r["sensors"], "visibility": np.array(r["visibility"]),
                                              "reward": np.array(r["reward"]), "decision": np.array(r["decision"])}
            elif r["kind"] == "decision_in":
                st.setdefault("decision_in", {})[r["engine"]] = {"policy": r["policy"], "reward": r["reward"], "visibility": r["visibility"]}
            elif r["kind"] == "decision_out":
                st.setdefault("decision_out", {})[r["engine"]] = r["decision"]
            elif r["kind"] == "reward_calc":
                st.setdefault("reward_calc", {})[r["engine"]] = r
            elif r["kind"] == "metrics_raw":
                st.setdefault("metrics_raw", {})[r["engine"]] = r
        if ctx.db_path and ctx.app is not None:
            q = {
                "observations": "select julian_date, sensor_id, target_id, azimuth_rad, elevation_rad, range_km, range_rate_km_p_sec from observations",
                "missed_observations": "select julian_date, sensor_id, target_id, reason from missed_observations",
                "tasks": "select julian_date, target_id, sensor_id, visibility, decision, reward from tasks",
                "truth": "select julian_date, agent_id, pos_x_km, pos_y_km, pos_z_km, vel_x_km_p_sec, vel_y_km_p_sec, vel_z_km_p_sec from truth_ephemerides",
                "estimates": "select julian_date, agent_id, pos_x_km, pos_y_km, pos_z_km, vel_x_km_p_sec, vel_y_km_p_sec, vel_z_km_p_sec, covar_00, covar_11, covar_22, covar_33, covar_44, covar_55 from estimate_ephemerides",
                "detected_maneuvers": "select julian_date, target_id, sensor_ids from detected_maneuvers",
            }
            for name, sql in q.items():
                rec["db"][name] = read_db(ctx.db_path, sql)
        rec["batches"] = [(b["labels"], b["order"], b["exec"]) for b in simray.STATE.batches]
        rec["retries"] = simray.STATE.stats["retries"]
        rec["step_dt"] = float(ctx.app.clock.dt_step) if ctx.app is not None else None
        rec["out_dt"] = float(case["config"]["time"]["output_step_sec"])
    finally:
        cleanup(ctx)
    return rec


# ---------------------------------------------------------------------------------------------
# per-run bookkeeping oracle
# ---------------------------------------------------------------------------------------------
def bookkeeping(rec: dict, viol: list, cnt: dict, background: bool):
    all_obs, all_missed = [], []
    last_complete = max([k for k, s in rec["steps"].items() if s.get("complete")], default=0)
    sdt, odt = rec.get("step_dt") or 1.0, rec.get("out_dt") or (rec.get("step_dt") or 1.0)
    last_saved = max([k for k in range(0, last_complete + 1) if round(k * sdt) % round(odt) == 0], default=0)
    for k in sorted(rec["steps"]):
        st = rec["steps"][k]
        if k == 0 or not st.get("complete"):
            continue
        prev = rec["steps"].get(k - 1, {})
        returned = {}
        for eid, eng in st["engines"].items():
            D = eng["decision"]
            V = eng["visibility"]
            if D.shape != V.shape or np.any(D & ~V):
                viol.append({"clause": "tasked-invisible-pair", "key": "decision", "detail": f"step {k} engine {eid}: decision tasks a pair that is not visible"})
            jobs = [j for j in st["jobs"] if j["engine"] == eid]
            want_targets = sorted(eng["targets"][ti] for ti in range(D.shape[0]) if D[ti].any())
            got_targets = sorted(j["target"] for j in jobs)
            if want_targets != got_targets:
                viol.append({"clause": "tasks-executed-differ-from-decision", "key": "jobs",
                             "detail": f"step {k} engine {eid}: task jobs ran for targets {got_targets}, decision tasks targets {want_targets}"})
                continue
            if len(jobs) >= 2:
                cnt["steps_with_2plus_task_jobs"] = cnt.get("steps_with_2plus_task_jobs", 0) + 1
            for j in jobs:
                ti = eng["targets"].index(j["target"])
                tasked = [eng["sensors"][si] for si in range(D.shape[1]) if D[ti, si]]
                if len(tasked) >= 2:
                    cnt["target_tasked_by_2plus_sensors"] = cnt.get("target_tasked_by_2plus_sensors", 0) + 1
                for s in tasked:
                    n_obs = sum(1 for o in j["obs"] if o[1] == s and o[2] == j["target"])
                    n_miss = sum(1 for m in j["missed"] if m[1] == s and m[2] == j["target"])
                    if n_obs + n_miss != 1:
                        viol.append({"clause": "primary-record-count", "key": f"obs={n_obs},miss={n_miss}",
                                     "detail": f"step {k} engine {eid}: tasked pair target {j['target']} / sensor {s} produced {n_obs} observations and {n_miss} misses (must be exactly one record)"})
                    cnt["tasked_pairs"] = cnt.get("tasked_pairs", 0) + 1
                    if n_miss:
                        cnt["tasked_pairs_missed"] = cnt.get("tasked_pairs_missed", 0) + 1
                extra_miss = [m for m in j["missed"] if not (m[1] in tasked and m[2] == j["target"])]
                if extra_miss:
                    viol.append({"clause": "unexpected-miss-record", "key": "miss", "detail": f"step {k} engine {eid} job {j['target']}: miss records for untasked pairs {extra_miss[:3]}"})
                extra_obs = [o for o in j["obs"] if o[1] not in tasked]
                if extra_obs:
                    viol.append({"clause": "observation-by-untasked-sensor", "key": "obs", "detail": f"step {k} engine {eid} job {j['target']}: observations by sensors not in the job {extra_obs[:3]}"})
                if not background and any(o[2] != j["target"] for o in j["obs"]):
                    viol.append({"clause": "serendipitous-with-background-off", "key": "obs", "detail": f"step {k} job {j['target']}: background observations although disabled"})
                if any(o[2] != j["target"] for o in j["obs"]):
                    cnt["serendipitous_observations"] = cnt.get("serendipitous_observations", 0) + 1
                infos = [si[0] for si in j["sensor_info"]]
                if sorted(infos) != sorted(tasked):
                    viol.append({"clause": "sensor-info-mismatch", "key": "info", "detail": f"step {k} job {j['target']}: sensor updates for {sorted(infos)}, tasked sensors {sorted(tasked)}"})
                for sid, bs, tlt in j["sensor_info"]:
                    returned.setdefault(sid, []).append((bs, tlt))
                # records become durable at the next output step: those of steps after the last output step of the run are still pending
                if k <= last_saved:
                    all_obs.extend(j["obs"])
                    all_missed.extend(j["missed"])
                else:
                    cnt["records_pending_after_the_last_output_step"] = cnt.get("records_pending_after_the_last_output_step", 0) + len(j["obs"]) + len(j["missed"])
        # every observation the step's jobs produced (all engines) reaches the filter of its target, exactly once
        if st.get("updates") is not None or any(j["obs"] for j in st["jobs"]):
            made = {}
            for j in st["jobs"]:
                for o in j["obs"]:
                    made.setdefault(o[2], []).append(tuple(o))
            tracked = set(st.get("estimates", {}))
            for tid in sorted(set(made) & tracked):
                got_u = sorted(tuple(o) for o in st.get("updates", {}).get(tid, {}).get("order", []))
                if got_u != sorted(made[tid]):
                    viol.append({"clause": "observations-not-delivered-to-filter", "key": "two-engines" if len({j["engine"] for j in st["jobs"] if any(o[2] == tid for o in j["obs"])}) > 1 else "update",
                                 "detail": f"step {k} target {tid}: the step's task jobs produced {len(made[tid])} observations of it (sensors {sorted(o[1] for o in made[tid])}), "
                                           f"its filter was updated with {len(got_u)} (sensors {sorted(o[1] for o in got_u)})"})
                else:
                    cnt["filter_updates_matched_with_the_observations_made"] = cnt.get("filter_updates_matched_with_the_observations_made", 0) + 1
        sens_multi = [s for s, v in returned.items() if len({x for x in v}) > 1]
        if sens_multi:
            cnt["sensor_with_conflicting_job_pointings"] = cnt.get("sensor_with_conflicting_job_pointings", 0) + 1
        for sid, now in st.get("pointing", {}).items():
            if sid in returned:
                if now not in returned[sid]:
                    viol.append({"clause": "pointing-update-lost", "key": "tasked-sensor",
                                 "detail": f"step {k}: sensor {sid} was tasked but its boresight/last-tasked time after the step is not what any of its task jobs returned "
                                           f"(last tasked {float.fromhex(now[1])}, jobs returned {[float.fromhex(x[1]) for x in returned[sid]]})"})
            elif sid in prev.get("pointing", {}) and prev["pointing"][sid] != now:
                viol.append({"clause": "pointing-changed-untasked", "key": "untasked-sensor", "detail": f"step {k}: sensor {sid} was not tasked but its pointing state changed"})
    if rec["db"] and not rec["error"]:
        def ms(rows):
            d = {}
            for r in rows:
                d[r] = d.get(r, 0) + 1
            return d
        db_obs = ms(tuple(hx(v) if isinstance(v, float) else v for v in r) for r in rec["db"]["observations"])
        want_obs = ms(tuple(o) for o in all_obs)
        if db_obs != want_obs:
            only_db = {k: v for k, v in db_obs.items() if want_obs.get(k, 0) != v}
            viol.append({"clause": "stored-observations-differ", "key": "rows",
                         "detail": f"observations table has {sum(db_obs.values())} rows, task jobs returned {sum(want_obs.values())}; e.g. {list(only_db.items())[:2]}"})
        db_miss = ms((hx(r[0]), r[1], r[2], r[3]) for r in rec["db"]["missed_observations"])
        want_miss = ms(tuple(m) for m in all_missed)
        if db_miss != want_miss:
            dup = {k: v for k, v in db_miss.items() if want_miss.get(k, 0) != v}
            viol.append({"clause": "stored-misses-differ", "key": "duplicated" if sum(db_miss.values()) > sum(want_miss.values()) else "lost",
                         "detail": f"missed_observations table has {sum(db_miss.values())} rows, task jobs returned {sum(want_miss.values())} misses; e.g. {list(dup.items())[:2]}"})
    cnt["steps_judged"] = cnt.get("steps_judged", 0) + last_complete


# ---------------------------------------------------------------------------------------------
# cross-schedule comparison
# ---------------------------------------------------------------------------------------------
def close(a, b):
    a, b = np.asarray(a, dtype=float), np.asarray(b, dtype=float)
    return a.shape == b.shape and bool(np.allclose(a, b, rtol=REL, atol=ABS))


def compare(base: dict, alt: dict, desc, viol: list, cnt: dict, exact_obs: bool = True) -> str:
    """Compare ``alt`` with ``base`` step by step; returns 'same' | 'violation' | 'indeterminate'."""
    def v(clause, detail, key="order"):
        viol.append({"clause": clause, "key": key, "detail": f"{detail} [schedule {desc}]", "schedule": desc})
        return "violation"

    if bool(base["error"]) != bool(alt["error"]):
        if (alt["numerical"] or base["numerical"]):
            cnt["numerical_abort_differs"] = cnt.get("numerical_abort_differs", 0) + 1
            return "indeterminate"
        return v("abort-depends-on-order", f"base run error={base['error']!r}, alternative error={alt['error']!r}")
    for k in sorted(base["steps"]):
        b, a = base["steps"][k], alt["steps"].get(k)
        if not b.get("complete"):
            continue
        if a is None or not a.get("complete"):
            return v("abort-depends-on-order", f"step {k} missing in alternative")
        if k == 0:
            continue
        for eid, be in b["engines"].items():
            ae = a["engines"].get(eid)
            if ae is None:
                return v("engine-missing", f"step {k} engine {eid}")
            if not np.array_equal(be["visibility"], ae["visibility"]):
                return v("visibility-order-dependent", f"step {k} engine {eid}: visibility matrix differs")
            if not close(be["reward"], ae["reward"]):
                return v("reward-order-dependent", f"step {k} engine {eid}: reward matrix differs by {float(np.max(np.abs(be['reward'] - ae['reward']))):.3e}")
            if not np.array_equal(be["decision"], ae["decision"]):
                if not np.array_equal(be["reward"], ae["reward"]):
                    cnt["decision_flip_on_rounding_tie"] = cnt.get("decision_flip_on_rounding_tie", 0) + 1
                    return "indeterminate"
                return v("decision-order-dependent", f"step {k} engine {eid}: decision differs although the reward and visibility matrices are bit-identical")
        bo = sorted(o for j in b["jobs"] for o in j["obs"])
        ao = sorted(o for j in a["jobs"] for o in j["obs"])
        if exact_obs:
            if bo != ao:
                return v("observations-order-dependent", f"step {k}: observations differ ({len(bo)} vs {len(ao)}; first difference {next((x for x in zip(bo, ao) if x[0] != x[1]), None)})")
        elif [o[:3] for o in bo] != [o[:3] for o in ao]:
            return v("observations-order-dependent", f"step {k}: observed (sensor, target) pairs differ")
        bm = sorted(m for j in b["jobs"] for m in j["missed"])
        am = sorted(m for j in a["jobs"] for m in j["missed"])
        if bm != am:
            return v("misses-order-dependent", f"step {k}: missed observations differ: {bm[:3]} vs {am[:3]}")
        if b.get("pointing") != a.get("pointing"):
            diff = [s for s in b["pointing"] if b["pointing"][s] != a["pointing"].get(s)]
            return v("pointing-order-dependent", f"step {k}: sensors {diff} end the step with different boresight / last-tasked time "
                                                 f"({[float.fromhex(b['pointing'][s][1]) for s in diff]} vs {[float.fromhex(a['pointing'][s][1]) for s in diff]})",
                     key=pointing_key(b, diff))
        if b.get("truth") != a.get("truth"):
            return v("truth-order-dependent", f"step {k}: truth states differ")
        reordered_update = False
        for tid, (bx, bp) in b.get("estimates", {}).items():
            if tid not in a.get("estimates", {}):
                return v("estimate-missing", f"step {k} estimate {tid}")
            ax, ap = a["estimates"][tid]
            if not exact_obs:
                continue
            bu, au = b.get("updates", {}).get(tid), a.get("updates", {}).get(tid)
            if bu is not None and au is not None and bu["order"] != au["order"] and sorted(bu["order"]) == sorted(au["order"]):
                # the same observations reached the filter stacked in another order (completion order of the jobs that made them):
                # the posterior may differ by the rounding that inverting the innovation covariance amplifies (C16), not by more
                cnt["updates_with_reordered_observations"] = cnt.get("updates_with_reordered_observations", 0) + 1
                if np.array_equal(bx, ax) and np.array_equal(bp, ap):
                    continue
                amp = 100 * 2.3e-16 * max(bu["cond"], au["cond"])
                if amp >= 1e-3:
                    cnt["reordered_update_too_ill_conditioned_to_judge"] = cnt.get("reordered_update_too_ill_conditioned_to_judge", 0) + 1
                    reordered_update = True
                    continue
                tol_x = 1e-9 * np.maximum(np.abs(bx), 1.0) + amp * np.maximum(bu["dx"], au["dx"])
                cc = max(bu["cond"], au["cond"])
                tol_p = (1e-9 * float(np.max(np.abs(bp))) + max(amp, 10 * 2.3e-16 * cc * cc) * max(bu["dp"], au["dp"])          # K = C inv(S), then K S K': eps * cond(S)^2
                         + 100 * 2.3e-16 * (float(np.max(np.abs(bp))) + max(bu["dp"], au["dp"])))                                  # P - K S K' keeps eps * |prior|
                if bool(np.any(~(np.abs(bx - ax) <= tol_x))) or not float(np.max(np.abs(bp - ap))) <= tol_p:
                    return v("estimate-order-dependent", f"step {k} estimate {tid}: same {len(bu['order'])} observations stacked in another order: state differs by {float(np.max(np.abs(bx - ax))):.3e}, "
                                                         f"covariance by {float(np.max(np.abs(bp - ap))):.3e} (allowance {float(np.max(tol_x)):.1e} / {tol_p:.1e}, cond(S) {max(bu['cond'], au['cond']):.1e})", key="beyond-rounding")
                reordered_update = True
                continue
            if not close(bx, ax) or not np.allclose(bp, ap, rtol=1e-7, atol=1e-18):
                return v("estimate-order-dependent", f"step {k} estimate {tid}: state differs by {float(np.max(np.abs(bx - ax))):.3e}, covariance by {float(np.max(np.abs(bp - ap))):.3e}")
        if reordered_update:
            # from here on the two runs differ by (amplifiable) rounding in an estimate: later steps are not comparable bit for bit.
            # What was stored up to this step still is: the detected-maneuver rows (which name the observing sensors) must not depend on the order either
            jds = sorted({r[0] for r in base["db"].get("truth", [])})
            if exact_obs and not base["error"] and len(jds) > k and round(base.get("out_dt") or 0) == round(base.get("step_dt") or 0):
                lim = jds[k]
                bd = sorted(map(repr, (r for r in base["db"].get("detected_maneuvers", []) if r[0] <= lim)))
                ad = sorted(map(repr, (r for r in alt["db"].get("detected_maneuvers", []) if r[0] <= lim)))
                if bd != ad:
                    return v("stored-rows-order-dependent", f"table detected_maneuvers: rows stored up to step {k} differ between schedules: {bd[:2]} vs {ad[:2]}", key="detected_maneuvers")
            cnt["comparison_stopped_after_reordered_update"] = cnt.get("comparison_stopped_after_reordered_update", 0) + 1
            return "indeterminate"
    if exact_obs and not base["error"]:
        for name in ("observations", "missed_observations", "truth", "detected_maneuvers"):
            if sorted(map(repr, base["db"].get(name, []))) != sorted(map(repr, alt["db"].get(name, []))):
                return v("stored-rows-order-dependent", f"table {name}: stored rows differ between schedules ({len(base['db'].get(name, []))} vs {len(alt['db'].get(name, []))} rows)", key=name)
        bt = sorted(base["db"].get("tasks", []), key=lambda r: r[:3])
        at = sorted(alt["db"].get("tasks", []), key=lambda r: r[:3])
        if [r[:5] for r in bt] != [r[:5] for r in at] or not close([r[5] for r in bt], [r[5] for r in at]):
            return v("stored-rows-order-dependent", "table tasks: stored rows differ between schedules", key="tasks")
    return "same"


def pointing_key(step_rec, sensors) -> str:
    """Known-finding key: is every differing sensor one that several jobs of the step returned different pointings for?"""
    per = {}
    for j in step_rec["jobs"]:
        for sid, bs, tlt in j["sensor_info"]:
            per.setdefault(sid, set()).add((bs, tlt))
    if sensors and all(len(per.get(s, ())) > 1 for s in sensors):
        return "sensor-in-several-jobs"
    return "order"


# ---------------------------------------------------------------------------------------------
# schedule families
# ---------------------------------------------------------------------------------------------
def alternatives(base_batches, rng: random.Random, cap: int, with_retry: bool = True):
    """Schedules to try for a case whose base run produced ``base_batches``."""
    must = [{"name": "lifo"}, {"name": "fifo", "exec_mode": "lazy"}, {"name": "seeded", "seed": rng.randrange(2**31), "exec_mode": "batch"}]
    if with_retry:
        must.append({"name": "seeded", "seed": rng.randrange(2**31), "retry_rate": 0.3})
    pool = []
    for bno, (labels, _order, _exec) in enumerate(base_batches):
        n = len(labels)
        if n < 2:
            continue
        if n <= 4:
            perms = [list(p) for p in itertools.permutations(range(n)) if list(p) != list(range(n))]
        else:
            perms = []
            for _ in range(6):
                p = list(range(n))
                rng.shuffle(p)
                perms.append(p)
            perms.append(list(range(1, n)) + [0])  # straggler: first job last
        for p in perms:
            pool.append({"name": "scripted", "perms": {str(bno): p}, "label": labels[0]})
    # prefer task-execution and update batches, then the rest
    pri = [s for s in pool if s["label"] in ("asyncExecuteTasking", "asyncCalculateReward")]
    rest = [s for s in pool if s not in pri]
    rng.shuffle(pri)
    rng.shuffle(rest)
    out = must + pri + rest
    for _ in range(3):
        out.append({"name": "seeded", "seed": rng.randrange(2**31)})
    return out[:cap]
