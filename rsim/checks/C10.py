"""C10 - truth trajectories depend only on dynamics and initial states.

Each case is a *family* of scenarios sharing dynamics settings, integrator, start, step and the
initial states of the common agents, and differing in everything else: truth-only vs. full
estimation+tasking, filter / detector / reward / decision / sensor parameters, noise seeds and
magnitudes, output cadence, one call vs. several, job completion order / execution mode / task
retry, removal of some agents, planned vs. unplanned flag of a maneuver.  Oracle: the truth state
of every common agent at every common epoch is bit-identical (float.hex), in memory and in the
stored truth rows.
"""

from __future__ import annotations

import copy
import datetime as dt
import random

from .. import gen, probes, simray
from ..core import Check, HarnessError, jdigest, result_template, run_one_forked
from ..run import cleanup, fmt_ts, history_digest, parse_ts, read_db
from .common import drive, interleaving_key, note_abort, time_info, variant


def hexes(arr):
    return [float(x).hex() for x in arr]


def mutate_nontruth(rng: random.Random, base: dict) -> tuple[dict, list[str]]:
    """Change only settings that must not influence truth propagation."""
    cfg = copy.deepcopy(base)
    tags = []
    sensors = [s for e in cfg["engines"] for s in e["sensors"]]
    all_adv = all(s["sensor"]["type"] == "adv_radar" for s in sensors)
    for e in cfg["engines"]:
        if rng.random() < 0.6:
            e["decision"] = {"name": rng.choice(["MunkresDecision", "MyopicNaiveGreedyDecision", "RandomDecision"] + (["AllVisibleDecision"] if all_adv else []))}
            if e["decision"]["name"] == "RandomDecision":
                e["decision"]["seed"] = rng.randrange(1, 2**31)
            tags.append("decision")
        if rng.random() < 0.6:
            e["reward"] = {"name": "SimpleSummationReward", "metrics": [{"name": m} for m in rng.sample(gen.METRICS, rng.randrange(1, 4))]}
            tags.append("reward")
    if rng.random() < 0.7:
        sf = cfg["estimation"]["sequential_filter"]
        sf["alpha"] = rng.choice([0.001, 0.05, 0.5])
        sf["beta"] = rng.choice([2.0, 0.0])
        sf["resample"] = rng.random() < 0.5
        sf["dynamics_model"] = rng.choice(["two_body", "special_perturbations"])
        sf["save_filter_steps"] = rng.random() < 0.3
        if rng.random() < 0.5:
            sf["maneuver_detection"] = rng.choice([{"name": "standard_nis", "threshold": 0.05}, {"name": "sliding_nis", "threshold": 0.01, "window_size": 3},
                                                   {"name": "fading_memory_nis", "threshold": 0.05, "delta": 0.7}])
        tags.append("filter")
    if rng.random() < 0.8:
        cfg["noise"]["random_seed"] = rng.randrange(1, 2**31)
        cfg["noise"]["init_position_std_km"] = rng.choice([1e-3, 1e-2, 0.1])
        cfg["noise"]["filter_noise_magnitude"] = rng.choice([3e-14, 1e-10])
        tags.append("noise")
    if rng.random() < 0.7:
        for s in sensors:
            sb = s["sensor"]
            sb["slew_rate"] = rng.choice([0.01, 1.0, 30.0, 180.0])
            sb["field_of_view"] = rng.choice([{"fov_shape": "conic", "cone_angle": rng.choice([0.1, 5.0, 30.0])},
                                              {"fov_shape": "rectangular", "azimuth_angle": 10.0, "elevation_angle": 10.0}])
            k = rng.choice([0.1, 1.0, 100.0])
            sb["covariance"] = [[v * k for v in row] for row in sb["covariance"]]
            sb["elevation_range"] = [rng.choice([1.0, 10.0]), 89.9999] if s["platform"]["type"] == "ground_facility" else sb["elevation_range"]
        tags.append("sensor-params")
    if rng.random() < 0.5:
        cfg["observation"]["background"] = not cfg["observation"]["background"]
        tags.append("background")
    if rng.random() < 0.5:
        step = cfg["time"]["physics_step_sec"]
        cfg["time"]["output_step_sec"] = rng.choice([step, step * 2, step * 3] + ([step // 2, step // 3] if step >= 6 else []))
        tags.append("output-step")
    for ev in cfg.get("events", []):
        if ev.get("event_type") == "impulse" and rng.random() < 0.5:
            ev["planned"] = not ev.get("planned", False)
            tags.append("planned-flag")
    return cfg, tags


class C10(Check):
    pid = "C10"
    level = "exploration"
    quick_budget_s = 60.0
    thorough_budget_s = 900.0
    per_run_timeout_s = 300.0
    rule = ("case = base scenario + 2-3 variants that share dynamics/initial states and differ in estimation, tasking, sensor, noise, output, "
            "run-splitting, schedule or agent-set settings; non-trivial = at least two members ran >= 1 step with >= 1 common agent; "
            "distinct = digest of the family")
    assumptions = ["bit equality via float.hex on in-memory truth states after every step and on stored truth rows at common epochs",
                   "task retry re-executes a job on a fresh copy of its arguments, as Ray does"]
    real_components = ["Scenario.stepForward (all phases)", "TargetAgent/SensingAgent/EstimateAgent", "TwoBody / SpecialPerturbations / Terrestrial", "UKF", "tasking engine, rewards, decisions",
                       "sensors", "event handling", "SQLite output DB"]
    stub_components = ["ray (rsim.simray: seeded completion order, execution mode, task retry)"]

    def setup(self, tier):
        probes.install_step_recorder()

    def gen(self, rng: random.Random, tier: str, index: int) -> dict:
        events = []
        sp = rng.random() < 0.45
        cfg = gen.network_case(rng, nsteps=rng.randrange(2, 6), coarse=True, placed_p=0.7, model="special_perturbations" if sp else "two_body", cluster_p=0.15)
        if sp and rng.random() < 0.7:
            cfg["perturbations"]["solar_radiation_pressure"] = True
        if rng.random() < 0.7:
            # agents that differ physically (the perturbed dynamics use each agent's own area-to-mass ratio and reflectivity)
            seen = {}
            for e in cfg["engines"]:
                for a in e["targets"] + [s for s in e["sensors"] if s["platform"]["type"] == "spacecraft"]:
                    if a["id"] not in seen:
                        seen[a["id"]] = {"mass": rng.choice([5.0, 100.0, 500.0, 2000.0, 8000.0]), "visual_cross_section": rng.choice([0.05, 1.0, 10.0, 40.0, 150.0]),
                                         "reflectivity": rng.choice([0.05, 0.21, 0.6, 1.0])}
                    a["platform"].update(seen[a["id"]])
        S, step = parse_ts(cfg["time"]["start_timestamp"]), cfg["time"]["physics_step_sec"]
        nsteps = round((parse_ts(cfg["time"]["stop_timestamp"]) - S).total_seconds() / step)
        tids = sorted({t["id"] for e in cfg["engines"] for t in e["targets"]})
        if rng.random() < 0.4:
            for _ in range(rng.randrange(1, 3)):
                k = rng.randrange(1, nsteps + 1)
                off = rng.choice([0, 0, -step // 2, -1, -rng.randrange(1, step), -rng.randrange(1, step)])
                events.append({"scope": "agent_propagation", "scope_instance_id": rng.choice(tids), "event_type": "impulse",
                               "start_time": fmt_ts(S + dt.timedelta(seconds=k * step + off)), "thrust_vector": [rng.uniform(-1e-3, 1e-3) for _ in range(3)],
                               "thrust_frame": rng.choice(["eci", "ntw"]), "planned": rng.random() < 0.5})
            cfg["events"] = events
        total = step * nsteps
        members = [{"config": cfg, "plan": [{"seconds": total}], "schedule": {"name": "seeded", "seed": rng.randrange(2**31)}, "job_seed": rng.randrange(2**31), "tags": ["base"]}]
        kinds = rng.sample(["truth-only", "settings", "split", "split", "schedule", "fewer-agents", "reorder", "settings"], rng.choice([2, 2, 3]))
        for kind in kinds:
            c2, tags = copy.deepcopy(cfg), [kind]
            plan = [{"seconds": total}]
            sched = {"name": "seeded", "seed": rng.randrange(2**31), "retry_rate": rng.choice([0.0, 0.0, 0.2])}
            if kind == "truth-only":
                c2["propagation"]["truth_simulation_only"] = True
            elif kind == "settings":
                c2, t2 = mutate_nontruth(rng, cfg)
                tags += t2
            elif kind == "split" and nsteps >= 2:
                cuts = sorted(rng.sample(range(1, nsteps), min(nsteps - 1, rng.choice([1, 2]))))
                # a call may ask for a time inside a step (it then stops at the step boundary before it; the next call continues from there)
                plan = [{"seconds": c * step + (rng.randrange(1, step) if rng.random() < 0.5 else 0)} for c in cuts] + [{"seconds": total}]
            elif kind == "reorder":
                # the same agents listed in another order (and the engines in another order)
                for e in c2["engines"]:
                    rng.shuffle(e["targets"])
                    rng.shuffle(e["sensors"])
                rng.shuffle(c2["engines"])
            elif kind == "schedule":
                sched = rng.choice([{"name": "lifo"}, {"name": "fifo", "exec_mode": "lazy"}, {"name": "seeded", "seed": rng.randrange(2**31), "exec_mode": "batch", "retry_rate": 0.3}])
            elif kind == "fewer-agents":
                # drop some targets (keep >= 1 per engine) and some sensors (keep >= 1 per engine)
                for e in c2["engines"]:
                    if len(e["targets"]) > 1:
                        e["targets"] = rng.sample(e["targets"], rng.randrange(1, len(e["targets"])))
                    if len(e["sensors"]) > 1 and e["decision"]["name"] != "AllVisibleDecision":
                        e["sensors"] = rng.sample(e["sensors"], rng.randrange(1, len(e["sensors"])))
                kept = {t["id"] for e in c2["engines"] for t in e["targets"]}
                c2["events"] = [ev for ev in c2.get("events", []) if ev["scope_instance_id"] in kept]
            members.append({"config": c2, "plan": plan, "schedule": sched, "job_seed": rng.randrange(2**31), "tags": tags,
                            "noise": rng.choice(["on", "on", "off"])})
        return {"members": members, "config": cfg, "plan": members[0]["plan"]}

    @staticmethod
    def _run_member(m):
        tmp = result_template()
        ctx = drive(m)
        try:
            aborted = note_abort(ctx, tmp)
            snaps = {}
            for sn in probes.of_kind("snap"):
                st = {}
                for aid, v in sn["targets"].items():
                    st[aid] = hexes(v)
                for aid, v in sn["sensors"].items():
                    st[aid] = hexes(v)
                snaps[sn["k"]] = st
            rows = {}
            if ctx.db_path:
                try:
                    for iso, aid, *vals in read_db(ctx.db_path, "select e.timestampISO, t.agent_id, t.pos_x_km, t.pos_y_km, t.pos_z_km, t.vel_x_km_p_sec, t.vel_y_km_p_sec, t.vel_z_km_p_sec "
                                                                "from truth_ephemerides t join epochs e on e.julian_date = t.julian_date"):
                        rows[(iso, aid)] = hexes(vals)
                except Exception:  # noqa: BLE001,S110 - a run that aborted during build has no DB
                    pass
            # (plain lists: the result travels back as JSON, which has neither integer nor tuple keys)
            return {"run": {"snaps": [[k, sorted(st.items())] for k, st in sorted(snaps.items())], "rows": [[list(kk), vv] for kk, vv in sorted(rows.items())],
                            "aborted": aborted, "tags": m["tags"], "error": repr(ctx.error) if ctx.error else None},
                    "interleaving": interleaving_key(), "retries": simray.STATE.stats["retries"], "digest": history_digest(ctx), "aborted_counters": dict(tmp["counters"])}
        finally:
            cleanup(ctx)

    def sample_view(self, case):
        t = case["config"]["time"]
        return {"start": t["start_timestamp"], "step": t["physics_step_sec"], "model": case["config"]["propagation"]["propagation_model"],
                "members": [m["tags"] for m in case["members"]], "n_events": len(case["config"].get("events", []))}

    def run(self, case: dict) -> dict:
        res = result_template()
        viol = res["violations"]
        res["key"] = jdigest(case["members"])
        runs = []
        inter = []
        digests = []
        for mi, m in enumerate(case["members"]):
            # every member is a scenario run of its own: in a fresh fork, so that state kept at module or class level by one run (caches) cannot
            # make the next one agree with it
            payload = run_one_forked(self._run_member, m, self.per_run_timeout_s * 4)     # the run as a whole is under the pool's time limit
            if not payload.get("ok"):
                raise HarnessError(f"member {mi} {m['tags']}: {payload.get('error')}\n{payload.get('trace', '')}")
            out_m = payload["result"]
            for kk, vv in out_m["aborted_counters"].items():
                res["counters"][kk] = res["counters"].get(kk, 0) + vv
            rr = out_m["run"]
            rr["snaps"] = {int(k): {int(a): v for a, v in st} for k, st in rr["snaps"]}
            rr["rows"] = {(kk[0], int(kk[1])): vv for kk, vv in rr["rows"]}
            runs.append(rr)
            inter.append(out_m["interleaving"])
            res["faults"]["task_retry"] = res["faults"].get("task_retry", 0) + out_m["retries"]
            digests.append(out_m["digest"])
        base = runs[0]
        S, step, out, ncfg = time_info(case)
        compared = 0
        for mi, r in enumerate(runs[1:], start=1):
            common_k = sorted(set(base["snaps"]) & set(r["snaps"]))
            for k in common_k:
                for aid in sorted(set(base["snaps"][k]) & set(r["snaps"][k])):
                    compared += 1
                    if base["snaps"][k][aid] != r["snaps"][k][aid]:
                        viol.append({"clause": "truth-differs", "key": "+".join(r["tags"][:1]),
                                     "detail": f"agent {aid} at step {k}: truth differs between base and member {mi} {r['tags']} "
                                               f"(base {base['snaps'][k][aid][:2]}.. vs {r['snaps'][k][aid][:2]}..)"})
                        break
                else:
                    continue
                break
            for key in sorted(set(base["rows"]) & set(r["rows"])):
                if base["rows"][key] != r["rows"][key]:
                    viol.append({"clause": "stored-truth-differs", "key": "+".join(r["tags"][:1]),
                                 "detail": f"stored truth row {key} differs between base and member {mi} {r['tags']}"})
                    break
            if r["aborted"] != base["aborted"] and not (r["aborted"] and "LinAlgError" in (r["error"] or "")) and not (base["aborted"] and "LinAlgError" in (base["error"] or "")):
                res["counters"]["abort_mismatch"] = res["counters"].get("abort_mismatch", 0) + 1
        steps = max(base["snaps"]) if base["snaps"] else 0
        res["nontrivial"] = compared > 0 and steps > 0
        res["sim_seconds"] = float(sum((max(r["snaps"]) if r["snaps"] else 0) for r in runs) * step)
        res["counters"]["state_comparisons"] = compared
        res["counters"]["members"] = len(runs)
        for r in runs[1:]:
            res["counters"][f"variant_{r['tags'][0]}"] = res["counters"].get(f"variant_{r['tags'][0]}", 0) + 1
        if case["config"].get("events"):
            res["counters"]["with_impulse_events"] = 1
        res["interleavings"] = inter
        res["digest"] = jdigest([digests, viol])
        return res

    def shrink_candidates(self, case, violation):
        ms = case["members"]
        if len(ms) > 2:
            for i in range(1, len(ms)):
                yield variant(case, f"drop-member-{i}", lambda c, i=i: c["members"].pop(i))
        base = ms[0]["config"]
        S, step, out, ncfg = time_info(case)
        if ncfg > 1:
            def fewer(c, n):
                for m in c["members"]:
                    m["config"]["time"]["stop_timestamp"] = fmt_ts(S + dt.timedelta(seconds=n * step))
                    m["plan"] = [{"seconds": n * step}]
                c["config"] = c["members"][0]["config"]
            for n in (1, ncfg // 2, ncfg - 1):
                if 0 < n < ncfg:
                    yield variant(case, f"steps={n}", lambda c, n=n: fewer(c, n))
        for i in range(len(base.get("events", []))):
            def drop_ev(c, i=i):
                for m in c["members"]:
                    if len(m["config"].get("events", [])) > i:
                        m["config"]["events"].pop(i)
            yield variant(case, f"drop-event-{i}", drop_ev)
        tids = sorted({t["id"] for e in base["engines"] for t in e["targets"]})
        if len(tids) > 1:
            for tid in tids:
                def drop_t(c, tid=tid):
                    for m in c["members"]:
                        for e in m["config"]["engines"]:
                            if len(e["targets"]) > 1:
                                e["targets"] = [t for t in e["targets"] if t["id"] != tid] or e["targets"][:1]
                        m["config"]["events"] = [ev for ev in m["config"].get("events", []) if ev["scope_instance_id"] != tid]
                yield variant(case, f"drop-target-{tid}", drop_t)
        for m_i, m in enumerate(ms):
            if (m.get("schedule") or {}).get("name") != "fifo":
                yield variant(case, f"fifo-{m_i}", lambda c, m_i=m_i: c["members"][m_i].__setitem__("schedule", {"name": "fifo"}))


CHECK = C10()
