"""C08 - tasking bookkeeping is exact and independent of the order parallel jobs finish.

For each generated case a base run (FIFO, eager) and a family of alternative schedules of the
same case: every permutation of each batch with <= 4 jobs (others FIFO), LIFO, lazy / shuffled
execution, seeded random joint schedules, task retry.  Oracles: per-run bookkeeping
(rsim.checks.sched.bookkeeping) and cross-schedule equality (rsim.checks.sched.compare).
"""

from __future__ import annotations

import copy
import datetime as dt
import random

import numpy as np

from .. import gen
from ..core import Check, jdigest, load_known, match_known, result_template
from . import sched
from .common import generic_shrinks, time_info, variant


class C08(Check):
    pid = "C08"
    level = "exploration"
    quick_budget_s = 90.0
    thorough_budget_s = 1500.0
    per_run_timeout_s = 600.0
    quick_alts = 14
    thorough_alts = 80
    rule = ("case = small network (1-4 sensors, 1-5 targets, any policy, 2-4 steps) run under a base schedule and N alternative schedules "
            "(per-batch permutations exhaustive for <= 4 jobs, LIFO, lazy/shuffled execution, random joint orders, task retry); "
            "non-trivial = some batch had >= 2 jobs and >= 1 tasked pair; distinct = digest of (config, schedule family seed)")
    assumptions = [
        "measurement noise is a function of (run seed, job submit ordinal): in real Ray each worker owns an unrelated NumPy stream, so noise never depends on completion order",
        "estimates/covariances compared at 1e-9 relative (stacking order of simultaneous observations may differ, C16); everything else bit-exact",
        "a decision flip while reward matrices differ only at rounding level is counted as indeterminate, not judged",
        "runs that die of numerical breakdown (LinAlgError) in the base schedule are skipped",
    ]
    real_components = ["Scenario.stepForward", "JobExecutor.join and every Registration.processResults", "CentralizedTaskingEngine", "rewards/metrics/decisions", "sensors + measurements",
                       "UKF predict/forecast/update", "asyncPropagate/asyncPredict/asyncCalculateReward/asyncExecuteTasking/asyncUpdateEstimate bodies", "SQLite output DB"]
    stub_components = ["ray (rsim.simray): completion order, execution order and task retry are the explored dimensions"]

    def setup(self, tier):
        sched.install()
        self.tier = tier

    def gen(self, rng: random.Random, tier: str, index: int) -> dict:
        narrow = rng.random() < 0.5
        dec = rng.choice(["AllVisibleDecision", "AllVisibleDecision", "MyopicNaiveGreedyDecision", "MyopicNaiveGreedyDecision", "MunkresDecision", "MunkresDecision", "RandomDecision"])
        ns = rng.randrange(2, 5) if dec != "MunkresDecision" else rng.randrange(3, 5)
        cfg = gen.network_case(rng, nsteps=rng.randrange(2, 5), n_sensors=ns, n_targets=rng.randrange(2, 6), coarse=True if narrow else None,
                               narrow_fov=narrow, decision=dec, model="two_body" if rng.random() < 0.9 else None, out_mult=rng.choice([1, 1, 1, 2, 3]),
                               space_sensor_p=0.1, two_engines_p=0.2, geo_p=0.75, placed_p=0.95, cluster_p=0.35, background=rng.random() < 0.7, id_stride=rng.choice([1, 1, 1, 8]),      # ids 8 apart collide in small hash tables (set / dict iteration then follows insertion order)
                               kinds=("radar", "adv_radar", "optical") if rng.random() < 0.3 else ("radar", "adv_radar"), masks=rng.random() < 0.4)
        if rng.random() < 0.2:
            # narrow fields of view, estimates kilometres off and targets flying a few km apart: a tasked sensor misses its own target while a
            # neighbour, tasked to the companion, catches it serendipitously (records of one target then come from two jobs of one step)
            narrow = True
            cfg = gen.network_case(rng, nsteps=rng.randrange(2, 5), n_sensors=rng.randrange(2, 4), n_targets=rng.randrange(2, 5), coarse=True, narrow_fov=True,
                                   decision=rng.choice(["MunkresDecision", "MyopicNaiveGreedyDecision"]), model="two_body", out_mult=rng.choice([1, 1, 2]), space_sensor_p=0.0,
                                   two_engines_p=0.0, geo_p=1.0, placed_p=1.0, cluster_p=0.9, background=True, kinds=("radar", "adv_radar"), masks=False)
            for s0 in cfg["engines"][0]["sensors"][1:]:
                s0["state"].update({k2: cfg["engines"][0]["sensors"][0]["state"][k2] for k2 in ("latitude", "longitude", "altitude")})
                s0["state"]["latitude"] = max(-89.0, min(89.0, s0["state"]["latitude"] + rng.uniform(-0.02, 0.02)))
        if narrow:
            cfg["noise"]["init_position_std_km"] = rng.choice([1.0, 5.0, 20.0])
            cfg["noise"]["init_velocity_std_km_p_sec"] = rng.choice([1e-4, 1e-3])
        force_noise = None
        if rng.random() < 0.12:
            # initial orbit determination inside the order exploration: two co-located radars, two targets flying a few km apart (each radar is tasked to
            # one and catches the other serendipitously), an unplanned impulse; after the detection the orbit is re-determined from the step's radar observations
            step0 = rng.choice([60, 300, 600])
            n0 = rng.randrange(6, 9)
            start0 = gen.draw_start(rng, gen.EOP_FIRST, gen.EOP_LAST)
            site = {"latitude": rng.uniform(-60, 60), "longitude": rng.uniform(-180, 180), "altitude": 0.1}
            kind0 = rng.choice(["adv_radar", "radar"])
            stride0 = rng.choice([1, 8, 8])
            sens = [gen.ground_sensor(90001 + i * stride0, site["latitude"] + 0.01 * i, site["longitude"], site["altitude"],
                                      gen.sensor_block(kind0, coarse=False, field_of_view={"fov_shape": "conic", "cone_angle": 30.0})) for i in range(2)]
            st0 = gen.place_over_site(rng, site, start0, 0, rng.uniform(0, 360), rng.uniform(30, 80), rng.uniform(36000, 40000), "corotate")
            off = np.array([rng.gauss(0, 1) for _ in range(3)])
            off = off / np.linalg.norm(off) * rng.choice([2.0, 10.0, 40.0])
            tgts = [gen.eci_target(10001, st0[:3], st0[3:]), gen.eci_target(10002, (np.array(st0[:3]) + off).tolist(), st0[3:])]
            dvv = np.array([rng.gauss(0, 1) for _ in range(3)])
            dvv = (dvv / np.linalg.norm(dvv) * 10 ** rng.uniform(-3, -2)).tolist()
            ev0 = [{"scope": "agent_propagation", "scope_instance_id": rng.choice([10001, 10002]), "event_type": "impulse",
                    "start_time": gen.fmt_ts(start0 + dt.timedelta(seconds=step0 * rng.randrange(1, 4) + rng.randrange(1, step0))), "thrust_vector": dvv, "thrust_frame": "eci", "planned": False}]
            est0 = {"sequential_filter": {"name": "unscented_kalman_filter", "dynamics_model": "two_body", "alpha": 0.05, "beta": 2.0,
                                          "maneuver_detection": {"name": "standard_nis", "threshold": rng.choice([0.01, 0.05])}, "initial_orbit_determination": True},
                    "initial_orbit_determination": {"name": rng.choice(["lambert_universal", "lambert_battin"]), "minimum_observation_spacing": 60}}
            cfg = gen.base_config(start0, step0, n0, [gen.engine_block(1, sens, tgts, "MunkresDecision")], model="two_body", seed=rng.randrange(1, 2**31), estimation=est0, events=ev0,
                                  out_step=step0, background=True)
            force_noise = "on"
        S, step, out, ncfg = time_info({"config": cfg})
        return {"config": cfg, "plan": [{"seconds": ncfg * step}], "schedule": {"name": "fifo"}, "job_seed": rng.randrange(2**31),
                "sched_seed": rng.randrange(2**31), "noise": force_noise or rng.choice(["on", "on", "off"])}

    def sample_view(self, case):
        t = case["config"]["time"]
        return {"start": t["start_timestamp"], "step": t["physics_step_sec"], "plan": case["plan"],
                "engines": [{"decision": e["decision"]["name"], "reward": e["reward"]["name"], "sensors": [(s["id"], s["sensor"]["type"]) for s in e["sensors"]],
                             "targets": [t["id"] for t in e["targets"]]} for e in case["config"]["engines"]],
                "background": case["config"]["observation"]["background"], "alts": case.get("alts", "generated from the base run's batches")}

    def run(self, case: dict) -> dict:
        res = result_template()
        viol, cnt = res["violations"], res["counters"]
        res["key"] = jdigest([case["config"], case.get("sched_seed")])
        base = sched.observe(case, isolate=True)
        if base["error"] and base["numerical"]:
            res["skipped"] = "aborted_numerical"
            cnt["aborted_numerical"] = 1
            return res
        if base["error"]:
            cnt[f"aborted_{base['error'].split(':')[0]}"] = 1
        background = case["config"]["observation"]["background"]
        sched.bookkeeping(base, viol, cnt, background)
        inter = [jdigest(base["batches"])]
        multi = sum(1 for b in base["batches"] if len(b[0]) > 1)
        cap = self.quick_alts if getattr(self, "tier", "quick") == "quick" else self.thorough_alts
        alts = case.get("alts")
        if alts is None:
            alts = sched.alternatives(base["batches"], random.Random(case["sched_seed"]), cap)
        known = load_known()
        n_same = n_ind = 0
        for desc in alts:
            c2 = dict(case)
            c2["schedule"] = desc
            alt = sched.observe(c2, isolate=True)
            inter.append(jdigest(alt["batches"]))
            res["faults"]["task_retry"] = res["faults"].get("task_retry", 0) + alt["retries"]
            if desc.get("exec_mode") in ("lazy", "batch"):
                res["faults"][f"exec_mode_{desc['exec_mode']}"] = res["faults"].get(f"exec_mode_{desc['exec_mode']}", 0) + 1
            res["faults"]["completion_reorder"] = res["faults"].get("completion_reorder", 0) + 1
            v2 = []
            sched.bookkeeping(alt, v2, {}, background)
            for x in v2:
                x["schedule"] = desc
                x["detail"] += f" [schedule {desc}]"
            viol.extend(v2)
            out = sched.compare(base, alt, desc, viol, cnt)
            n_same += out == "same"
            n_ind += out == "indeterminate"
            unknown = [x for x in viol if not match_known(self.pid, x, known)]
            if unknown:
                break
        res["indeterminate"] = n_ind
        cnt["schedules_run"] = len(inter)
        cnt["schedules_identical_to_base"] = n_same
        cnt["multi_job_batches_in_base"] = multi
        res["nontrivial"] = multi > 0 and cnt.get("tasked_pairs", 0) > 0
        res["sim_seconds"] = float(len(inter) * sum(1 for s in base["steps"].values() if s.get("complete")) * (base.get("step_dt") or 0))
        res["interleavings"] = inter
        res["digest"] = jdigest([inter, viol, cnt, sorted((k, sorted((a, v[1]) for a, v in s.get("pointing", {}).items())) for k, s in base["steps"].items())])
        return res

    def shrink_candidates(self, case, violation):
        if violation.get("schedule") and case.get("alts") != [violation["schedule"]]:
            yield variant(case, "only-failing-schedule", lambda c: c.__setitem__("alts", [violation["schedule"]]))
        if case.get("alts") is None and not violation.get("schedule"):
            yield variant(case, "no-alternatives", lambda c: c.__setitem__("alts", []))
        for c in generic_shrinks(case):
            if c.get("_shrunk_by") == "fifo":
                continue
            yield c
        cfg = case["config"]
        for ei, e in enumerate(cfg["engines"]):
            if len(e["targets"]) > 1:
                for t in e["targets"]:
                    yield variant(case, f"drop-target-{t['id']}", lambda c, ei=ei, tid=t["id"]: c["config"]["engines"][ei].__setitem__("targets", [x for x in c["config"]["engines"][ei]["targets"] if x["id"] != tid]))
            if len(e["sensors"]) > 1:
                for s in e["sensors"]:
                    yield variant(case, f"drop-sensor-{s['id']}", lambda c, ei=ei, sid=s["id"]: c["config"]["engines"][ei].__setitem__("sensors", [x for x in c["config"]["engines"][ei]["sensors"] if x["id"] != sid]))
        if len(cfg["engines"]) > 1:
            for ei in range(len(cfg["engines"])):
                yield variant(case, f"drop-engine-{ei}", lambda c, ei=ei: c["config"]["engines"].pop(ei))
        if cfg["observation"]["background"]:
            yield variant(case, "background-off", lambda c: c["config"]["observation"].__setitem__("background", False))
        if case.get("noise") != "off":
            yield variant(case, "noise-off", lambda c: c.__setitem__("noise", "off"))
        sd = violation.get("schedule")
        if sd and sd.get("name") == "seeded":
            yield variant(case, "lifo-instead", lambda c: c.__setitem__("alts", [{"name": "lifo"}]))


CHECK = C08()
