"""C20 (orbit-determination clause) - orbit determination fed with two noise-free radar observations
of a near-circular orbit taken less than 40 % of a period apart returns that orbit's state, and
converting a radar observation to an inertial position inverts the measurement model.

The clause depends on the *stored* observation history, the output cadence and the same-pass
logic, which only runs produce: noise-off full runs with IOD configured (each Lambert variant),
two-body truth, near-circular targets, an unplanned impulse -> detection -> IOD armed -> next radar
observation -> determineNewEstimateState.  Two geometries: a GEO-like target persistently seen by
one radar (spacing = one or a few steps), and a LEO target with two radar sites placed by inverse
geometry under its ground track so that the two observations are 5-45 % of a period apart.

The Lambert clause over all arcs is a pure boundary-value statement (not applicable to this
technique); the arcs the solvers are actually called with are checked ("visited arcs only").
"""

from __future__ import annotations

import datetime as dt
import math
import random

import numpy as np

from .. import gen, probes
from ..core import Check, jdigest, result_template
from ..oracles import geom, kepler
from ..run import cleanup, fmt_ts, history_digest, parse_ts, wrap_method
from .common import drive, generic_shrinks, over, raised_in_harness, time_info, variant

POS_TOL = 1e-6
VEL_TOL = 1e-6


def install_iod_probe():
    import resonaate.estimation.initial_orbit_determination as iod_mod
    from resonaate.estimation.initial_orbit_determination import LambertIOD

    def after(self, tok, res, observations, detection_time, current_time, *a, **k):
        probes.rec("iod", target=self.sat_num, detection_time=float(detection_time), current_time=float(current_time), n_obs=len(observations),
                   radar_obs=[(int(o.sensor_id), float(o.julian_date)) for o in observations if getattr(o, "range_km", None)],
                   converged=bool(res.convergence), message=str(res.message), state=None if res.state_vector is None else np.array(res.state_vector, dtype=float).copy(),
                   method=getattr(self.orbit_determination_method, "__name__", "?"))

    wrap_method(LambertIOD, "determineNewEstimateState", after=after)
    orig = iod_mod.radarObs2eciPosition
    if not getattr(orig, "_rsim", False):
        def wrapped(observation):
            out = orig(observation)
            probes.rec("obs2eci", sensor=int(observation.sensor_id), target=int(observation.target_id), jd=float(observation.julian_date), pos=np.array(out, dtype=float).copy())
            return out

        wrapped._rsim = True  # noqa: SLF001
        iod_mod.radarObs2eciPosition = wrapped


def subpoint_site(state_eci, when: dt.datetime, offset_deg: float):
    """Geodetic site (lat, lon) under a satellite state at ``when``, shifted north by ``offset_deg``."""
    from resonaate.physics.transforms.methods import ecef2lla, eci2ecef

    lla = ecef2lla(eci2ecef(np.asarray(state_eci, dtype=float), when))
    lat = math.degrees(lla[0]) + offset_deg
    lat = max(-85.0, min(85.0, lat))
    return lat, math.degrees(lla[1])


class C20(Check):
    pid = "C20"
    level = "exploration"
    quick_budget_s = 60.0
    thorough_budget_s = 900.0
    per_run_timeout_s = 300.0
    rule = ("case = noise-off two-body run with initial orbit determination configured (universal / Battin / Gauss), a near-circular target, an unplanned impulse and radar sites placed so "
            "that the two observations used are a drawn fraction of the period apart; non-trivial = determineNewEstimateState was reached with two radar observations inside the clause's "
            "domain (< 40 % of a period, eccentricity < 0.05); distinct = digest of the configuration")
    assumptions = [
        "claimed for the orbit-determination clause only; the Lambert clause over all arcs is not applicable (pure function) - only the arcs visited by runs are checked",
        "noise off (numpy.random.randn -> 0) so that observations are exact; truth under two-body dynamics",
        "tolerances 1e-6 km and 1e-6 km/s + |v| * 8e-5 s / time-of-flight (the repo derives the time of flight from two Julian dates, each resolved to 40 us); spacing >= 40 % of a period, eccentricity >= 0.05, or an observation pair with the impulse between them (possible after a false maneuver alarm) is outside the clause and not judged",
        "lambert_gauss (not one of the two solvers the statement names) may report 'did not converge' at any spacing; whatever any solver returns as a solution must be finite and be the orbit's state",
    ]
    real_components = ["EstimateAgent IOD hand-over", "LambertIOD.determineNewEstimateState (history from the output DB)", "lambertUniversal / lambertBattin / lambertGauss", "radarObs2eciPosition", "maneuver detection", "radar sensors"]
    stub_components = ["ray (rsim.simray)", "numpy.random.randn (zeros: noise-off profile)"]

    def setup(self, tier):
        probes.install_step_recorder()
        install_iod_probe()

    def gen(self, rng: random.Random, tier: str, index: int) -> dict:
        leo = rng.random() < 0.6
        start = gen.draw_start(rng, gen.EOP_FIRST, gen.EOP_LAST)
        method = rng.choice(["lambert_universal", "lambert_universal", "lambert_battin", "lambert_gauss"])
        if leo:
            a = gen.RE + rng.uniform(500, 1500)
            inc = math.radians(rng.uniform(20, 100))
            pos, vel = gen.coe_to_rv(a, rng.uniform(0, 0.002), inc, rng.uniform(0, 2 * math.pi), rng.uniform(0, 2 * math.pi), rng.uniform(0, 2 * math.pi))
            x0 = np.array(pos + vel)
            P = kepler.period(x0)
            step = rng.choice([60, 120])
            kA = rng.randrange(2, 5)
            frac = rng.choice([rng.uniform(0.05, 0.33), rng.uniform(0.30, 0.40), rng.uniform(0.355, 0.399), rng.uniform(0.40, 0.47)])
            retry = rng.random() < 0.25
            if retry:
                # first pair unusable (more than a period apart: "not from a single pass"; for Gauss also a wide transfer angle it reports as
                # divergence): the attempt at site B fails, B's observation is stored, and the attempt at a third site C has two stored observations
                frac = rng.uniform(0.25, 0.45) if method == "lambert_gauss" and rng.random() < 0.6 else rng.uniform(1.02, 1.25)
            kB = kA + max(1, round(frac * P / step))
            kC = kB + max(1, round(rng.uniform(0.05, 0.39) * P / step)) if retry else None
            nsteps = (kC if retry else kB) + 1
            k_imp = rng.randrange(0, kA)
            dvv = np.array([rng.gauss(0, 1) for _ in range(3)])
            dvv = dvv / np.linalg.norm(dvv) * 10 ** rng.uniform(-3, -2)
            t_imp = k_imp * step + rng.randrange(1, step)
            x = kepler.propagate(x0, t_imp)
            x[3:] += dvv
            xA = kepler.propagate(x, kA * step - t_imp)
            xB = kepler.propagate(x, kB * step - t_imp)
            latA, lonA = subpoint_site(xA, start + dt.timedelta(seconds=kA * step), rng.uniform(0.3, 2.0))
            latB, lonB = subpoint_site(xB, start + dt.timedelta(seconds=kB * step), rng.uniform(0.3, 2.0))
            # a high elevation mask: each site sees the target for a single step only (near-zenith part of the pass)
            blk = lambda: gen.sensor_block("adv_radar", coarse=False, field_of_view={"fov_shape": "conic", "cone_angle": 60.0},  # noqa: E731
                                           elevation_range=[rng.choice([75.0, 80.0]), 89.9999])
            sensors = [gen.ground_sensor(90001, latA, lonA, 0.1, blk()), gen.ground_sensor(90002, latB, lonB, 0.1, blk())]
            if retry:
                xC = kepler.propagate(x, kC * step - t_imp)
                latC, lonC = subpoint_site(xC, start + dt.timedelta(seconds=kC * step), rng.uniform(0.3, 2.0))
                sensors.append(gen.ground_sensor(90003, latC, lonC, 0.1, blk()))
            tgt = gen.eci_target(10001, x0[:3], x0[3:])
            ev = [{"scope": "agent_propagation", "scope_instance_id": 10001, "event_type": "impulse", "start_time": fmt_ts(start + dt.timedelta(seconds=t_imp)),
                   "thrust_vector": dvv.tolist(), "thrust_frame": "eci", "planned": False}]
        else:
            step = rng.choice([60, 300, 600])
            nsteps = rng.randrange(6, 11)
            site = {"latitude": rng.uniform(-60, 60), "longitude": rng.uniform(-180, 180), "altitude": 0.1}
            sensors = [gen.ground_sensor(90001, site["latitude"], site["longitude"], site["altitude"],
                                         gen.sensor_block(rng.choice(["adv_radar", "radar"]), coarse=False, field_of_view={"fov_shape": "conic", "cone_angle": 30.0}))]
            st = gen.place_over_site(rng, site, start, 0, rng.uniform(0, 360), rng.uniform(30, 80), rng.uniform(36000, 40000), "corotate")
            tgt = gen.eci_target(10001, st[:3], st[3:])
            k_imp = rng.randrange(1, 4)
            dvv = np.array([rng.gauss(0, 1) for _ in range(3)])
            dvv = dvv / np.linalg.norm(dvv) * 10 ** rng.uniform(-3, -2)
            ev = [{"scope": "agent_propagation", "scope_instance_id": 10001, "event_type": "impulse", "start_time": fmt_ts(start + dt.timedelta(seconds=k_imp * step + rng.randrange(1, step))),
                   "thrust_vector": dvv.tolist(), "thrust_frame": "eci", "planned": False}]
        est = {"sequential_filter": {"name": "unscented_kalman_filter", "dynamics_model": "two_body", "alpha": 0.05, "beta": 2.0,
                                     "maneuver_detection": {"name": "standard_nis", "threshold": rng.choice([0.01, 0.05])}, "initial_orbit_determination": True},
               "initial_orbit_determination": {"name": method, "minimum_observation_spacing": rng.choice([1, 60, 600])}}
        cfg = gen.base_config(start, step, nsteps, [gen.engine_block(1, sensors, [tgt], "AllVisibleDecision" if all(s["sensor"]["type"] == "adv_radar" for s in sensors) else "MunkresDecision")],
                              model="two_body", seed=rng.randrange(1, 2**31), estimation=est, events=ev, out_step=step, background=False)
        return {"config": cfg, "plan": [{"seconds": nsteps * step}], "schedule": {"name": "seeded", "seed": rng.randrange(2**31)}, "job_seed": rng.randrange(2**31), "noise": "off",
                "geometry": ("leo-three-sites" if len(sensors) == 3 else "leo-two-sites") if leo else "geo-one-site"}

    def sample_view(self, case):
        c = case["config"]
        return {"time": c["time"], "geometry": case.get("geometry"), "iod": c["estimation"]["initial_orbit_determination"], "impulse": c["events"][0]["start_time"],
                "sites": [(round(s["state"]["latitude"], 3), round(s["state"]["longitude"], 3)) for s in c["engines"][0]["sensors"]]}

    def run(self, case: dict) -> dict:
        res = result_template()
        viol, cnt = res["violations"], res["counters"]
        res["key"] = jdigest(case["config"])
        S, step, out, ncfg = time_info(case)
        ctx = drive(case)
        try:
            if ctx.error is not None:
                if raised_in_harness(ctx.error):
                    raise ctx.error
                cnt["aborted_" + type(ctx.error).__name__] = 1
            snaps = {sn["k"]: sn for sn in probes.of_kind("snap")}
            truth = {k: sn["targets"].get(10001) for k, sn in snaps.items()}
            jd0 = float(ctx.app.clock.julian_date_start) if ctx.app is not None else None
            # observation -> inertial position inverts the measurement model (noise off)
            mx = 0.0
            for r in probes.of_kind("obs2eci"):
                k = round((r["jd"] - jd0) * 86400 / step)
                if truth.get(k) is None:
                    continue
                d = float(np.linalg.norm(r["pos"] - truth[k][:3]))
                mx = max(mx, d)
                cnt["observation_inversions_checked"] = cnt.get("observation_inversions_checked", 0) + 1
                if over(d, POS_TOL):
                    viol.append({"clause": "observation-inversion", "key": "radarObs2eciPosition", "detail": f"noise-free radar observation of sensor {r['sensor']} at step {k} converts to a position {d:.3e} km from the true one"})
                    break
            res["tolerances"]["obs_to_eci_km"] = [mx, POS_TOL]
            mxp = mxv = 0.0
            for r in probes.of_kind("iod"):
                cnt["iod_attempts"] = cnt.get("iod_attempts", 0) + 1
                k2 = round(r["current_time"] / step)
                if not r["radar_obs"] or truth.get(k2) is None:
                    continue
                # which stored observation did it pair with?  the latest stored radar observation since detection:
                # observations are stored after each step, so that is the latest step < k2 with a radar observation
                obs_steps = sorted({round((x["jd"] - jd0) * 86400 / step) for x in probes.of_kind("obs2eci")})
                prev = [k for k in obs_steps if r["detection_time"] / step - 1e-6 <= k < k2]
                if not prev:
                    continue
                k1 = prev[-1]
                if len(prev) > 1:
                    cnt["iod_attempts_with_several_stored_observations"] = cnt.get("iod_attempts_with_several_stored_observations", 0) + 1
                x2 = truth[k2]
                P = kepler.period(x2)
                r_, v_ = x2[:3], x2[3:]
                ecc = float(np.linalg.norm(np.cross(v_, np.cross(r_, v_)) / kepler.MU - r_ / np.linalg.norm(r_)))
                frac = (k2 - k1) * step / P
                t_imp = [(parse_ts(e["start_time"]) - S).total_seconds() for e in case["config"].get("events", []) if e["event_type"] == "impulse"]
                straddles = any(k1 * step - 1e-3 <= t <= k2 * step + 1e-3 for t in t_imp)   # the two observations are not on one orbit
                if straddles:
                    cnt["iod_pairs_straddling_the_impulse"] = cnt.get("iod_pairs_straddling_the_impulse", 0) + 1
                in_domain = frac < 0.40 and ecc < 0.05 and not straddles
                cnt["iod_attempts_with_two_radar_observations"] = cnt.get("iod_attempts_with_two_radar_observations", 0) + 1
                if not in_domain:
                    cnt["iod_attempts_outside_clause_domain"] = cnt.get("iod_attempts_outside_clause_domain", 0) + 1
                    continue
                res["nontrivial"] = True
                if frac > 0.3:
                    cnt["iod_spacing_30_to_40_percent_of_period"] = cnt.get("iod_spacing_30_to_40_percent_of_period", 0) + 1
                where = f"step {k2}: {r['method']} on radar observations {k2 - k1} steps ({frac * 100:.1f} % of the period) apart, eccentricity {ecc:.4f}"
                if r["method"] == "lambertGauss" and not r["converged"] and "did not converge" in str(r["message"]):
                    # the statement names the universal-variable and Battin solvers; Gauss' fixed-point iteration diverges on
                    # transfer angles beyond ~75 deg (Vallado alg. 57: for closely spaced vectors).  Saying so is correct;
                    # returning a state that is not the orbit's (or not finite) is not
                    cnt["gauss_reported_divergence"] = cnt.get("gauss_reported_divergence", 0) + 1
                    continue
                if not r["converged"] or r["state"] is None:
                    viol.append({"clause": "iod-did-not-return-a-state", "key": r["message"], "detail": f"{where}: orbit determination reported '{r['message']}'"})
                    continue
                dp, dv = float(np.linalg.norm(r["state"][:3] - x2[:3])), float(np.linalg.norm(r["state"][3:] - x2[3:]))
                # the time of flight is a difference of two Julian dates (resolution 40 us each): that alone
                # limits the velocity to |v| * 8e-5 s / time of flight
                tof = (k2 - k1) * step
                vel_tol = VEL_TOL + float(np.linalg.norm(x2[3:])) * 8e-5 / tof
                mxp, mxv = max(mxp, dp / POS_TOL), max(mxv, dv / vel_tol)
                cnt["iod_solutions_judged"] = cnt.get("iod_solutions_judged", 0) + 1
                if not (dp <= POS_TOL and dv <= vel_tol):   # also true for a non-finite state
                    viol.append({"clause": "iod-state-differs-from-truth", "key": r["method"], "detail": f"{where}: returned state is {dp:.3e} km / {dv:.3e} km/s from the true state"})
                    continue
                # visited arc: the returned state, flown backwards over the time of flight, arrives at the first observation
                back = kepler.propagate(r["state"], -(k2 - k1) * step)
                if truth.get(k1) is not None:
                    db = float(np.linalg.norm(back[:3] - truth[k1][:3]))
                    cnt["lambert_arcs_visited"] = cnt.get("lambert_arcs_visited", 0) + 1
                    if not db <= 1e-4 + float(np.linalg.norm(x2[3:])) * 8e-5 + vel_tol * tof:
                        viol.append({"clause": "lambert-arc-not-reproduced", "key": r["method"], "detail": f"{where}: flying the solution back over the time of flight misses the first position by {db:.3e} km"})
            res["tolerances"]["iod_pos_ratio_to_limit(1e-6 km)"] = [mxp, 1.0]
            res["tolerances"]["iod_vel_ratio_to_limit(1e-6 km/s + |v|*8e-5 s/tof)"] = [mxv, 1.0]
            cnt["geometry_" + case.get("geometry", "?")] = 1
            res["sim_seconds"] = float(ncfg * step)
            res["digest"] = history_digest(ctx, viol)
        finally:
            cleanup(ctx)
        return res

    def shrink_candidates(self, case, violation):
        for c in generic_shrinks(case):
            if not c.get("_shrunk_by", "").startswith(("drop-event", "steps=")):
                yield c


CHECK = C20()
