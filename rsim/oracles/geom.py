"""Independent geometry used by the oracles (closed-form ellipsoid, topocentric frames, FoV tests).

Only *constants* of the repo's Earth model are reused (equatorial radius, eccentricity): they are
data that define what "the configured geodetic location" means; every formula is rsim's own.
"""

from __future__ import annotations

import math

import numpy as np

RE = 6378.1363          # km, resonaate.physics.bodies.Earth.radius
ECC = 0.081819221456    # resonaate.physics.bodies.Earth.eccentricity
OMEGA = 7.292115146706979e-5


def lla_to_ecef(lat_rad: float, lon_rad: float, alt_km: float) -> np.ndarray:
    """Geodetic (reference ellipsoid) -> Earth-fixed Cartesian position, closed form."""
    s = math.sin(lat_rad)
    n = RE / math.sqrt(1.0 - ECC * ECC * s * s)
    x = (n + alt_km) * math.cos(lat_rad) * math.cos(lon_rad)
    y = (n + alt_km) * math.cos(lat_rad) * math.sin(lon_rad)
    z = (n * (1.0 - ECC * ECC) + alt_km) * s
    return np.array([x, y, z])


def sez_basis(lat_rad: float, lon_rad: float) -> np.ndarray:
    """Rows are the South, East, Zenith unit vectors of the geodetic horizon frame in ECEF."""
    sl, cl = math.sin(lat_rad), math.cos(lat_rad)
    so, co = math.sin(lon_rad), math.cos(lon_rad)
    south = np.array([sl * co, sl * so, -cl])
    east = np.array([-so, co, 0.0])
    zen = np.array([cl * co, cl * so, sl])
    return np.vstack([south, east, zen])


def wrap_pi(a: float) -> float:
    """Wrap to (-pi, pi]."""
    a = math.fmod(a, 2 * math.pi)
    if a > math.pi:
        a -= 2 * math.pi
    elif a <= -math.pi:
        a += 2 * math.pi
    return a


def wrap_2pi(a: float) -> float:
    a = math.fmod(a, 2 * math.pi)
    if a < 0:
        a += 2 * math.pi
    return a


def angle_between(u, v) -> float:
    u = np.asarray(u, dtype=float)
    v = np.asarray(v, dtype=float)
    c = np.cross(u, v)
    return math.atan2(float(np.linalg.norm(c)), float(u @ v))
