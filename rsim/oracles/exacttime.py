"""Exact (integer) time arithmetic used by every oracle that reasons about instants.

Instants are integer microseconds since 1900-01-01T00:00:00 (proleptic Gregorian, no leap
seconds - the same calendar model ``datetime`` and the repo use).  Julian dates are only ever
*compared against* :func:`exact_jd` with a tolerance; they never decide anything.
"""

from __future__ import annotations

import datetime as dt
from fractions import Fraction

EPOCH0 = dt.datetime(1900, 1, 1)
JD_EPOCH0 = Fraction(4830041, 2)  # 2415020.5
US_PER_DAY = 86400 * 1_000_000

JD_TOL_DAYS = 1.5e-9  # ~3 ulp of a double near 2.45e6 (ulp = 4.66e-10 day = 40 microseconds)


def to_us(t: dt.datetime) -> int:
    d = t - EPOCH0
    return (d.days * 86400 + d.seconds) * 1_000_000 + d.microseconds


def from_us(us: int) -> dt.datetime:
    return EPOCH0 + dt.timedelta(microseconds=us)


def exact_jd(us: int) -> Fraction:
    return JD_EPOCH0 + Fraction(us, US_PER_DAY)


def jd_close(jd_float: float, us: int, tol: float = JD_TOL_DAYS) -> bool:
    return abs(Fraction(jd_float) - exact_jd(us)) <= Fraction(tol)


def jd_err_days(jd_float: float, us: int) -> float:
    return float(abs(Fraction(jd_float) - exact_jd(us)))


def step_of(event_us: int, start_us: int, step_us: int) -> int:
    """Index k >= 1 of the step whose interval (t_{k-1}, t_k] contains the instant (ceil division)."""
    d = event_us - start_us
    return -((-d) // step_us)
