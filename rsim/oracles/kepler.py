"""Independent two-body reference: universal-variable Kepler propagation, energy, angular momentum,
NTW frame.  Written for rsim; shares no code with resonaate.physics.orbits."""

from __future__ import annotations

import math

import numpy as np

MU = 398600.4415  # km^3/s^2 (the value the repo's Earth model uses; data, not code)


def _stumpff(z: float):
    if z > 1e-6:
        s = math.sqrt(z)
        return (1 - math.cos(s)) / z, (s - math.sin(s)) / (s * s * s)
    if z < -1e-6:
        s = math.sqrt(-z)
        return (1 - math.cosh(s)) / z, (math.sinh(s) - s) / (s * s * s)
    # series
    c2 = 0.5 - z / 24 + z * z / 720 - z**3 / 40320
    c3 = 1 / 6 - z / 120 + z * z / 5040 - z**3 / 362880
    return c2, c3


def propagate(state, dt: float, mu: float = MU) -> np.ndarray:
    """Propagate a 6-vector by ``dt`` seconds of Keplerian motion (elliptic orbits)."""
    state = np.asarray(state, dtype=float)
    if dt == 0.0:
        return state.copy()
    r0v, v0v = state[:3], state[3:]
    r0 = math.sqrt(float(r0v @ r0v))
    v0sq = float(v0v @ v0v)
    rdv = float(r0v @ v0v)
    alpha = 2.0 / r0 - v0sq / mu  # 1/a
    if alpha <= 0:
        raise ValueError("kepler.propagate: only bound orbits are supported")
    sqmu = math.sqrt(mu)
    # reduce dt by whole periods for conditioning
    period = 2 * math.pi / (sqmu * alpha**1.5)
    dtr = math.fmod(dt, period)
    chi = sqmu * dtr * alpha
    for _ in range(100):
        z = chi * chi * alpha
        c2, c3 = _stumpff(z)
        r = chi * chi * c2 + rdv / sqmu * chi * (1 - z * c3) + r0 * (1 - z * c2)
        f = chi**3 * c3 + rdv / sqmu * chi * chi * c2 + r0 * chi * (1 - z * c3) - sqmu * dtr
        dchi = f / r
        chi -= dchi
        if abs(dchi) < 1e-13 * max(1.0, abs(chi)):
            break
    z = chi * chi * alpha
    c2, c3 = _stumpff(z)
    fg = 1 - chi * chi / r0 * c2
    g = dtr - chi**3 / sqmu * c3
    rv = fg * r0v + g * v0v
    r = math.sqrt(float(rv @ rv))
    gd = 1 - chi * chi / r * c2
    fd = sqmu / (r * r0) * chi * (z * c3 - 1)
    vv = fd * r0v + gd * v0v
    return np.concatenate([rv, vv])


def energy(state, mu: float = MU) -> float:
    s = np.asarray(state, dtype=float)
    return 0.5 * float(s[3:] @ s[3:]) - mu / math.sqrt(float(s[:3] @ s[:3]))


def ang_mom(state) -> np.ndarray:
    s = np.asarray(state, dtype=float)
    return np.cross(s[:3], s[3:])


def ntw_to_eci_matrix(state) -> np.ndarray:
    """Columns are the N (in-plane normal to velocity), T (along velocity), W (orbit normal) unit vectors."""
    s = np.asarray(state, dtype=float)
    r, v = s[:3], s[3:]
    t = v / np.linalg.norm(v)
    w = np.cross(r, v)
    w = w / np.linalg.norm(w)
    n = np.cross(t, w)
    return np.column_stack([n, t, w])


def period(state, mu: float = MU) -> float:
    s = np.asarray(state, dtype=float)
    a = 1.0 / (2.0 / np.linalg.norm(s[:3]) - float(s[3:] @ s[3:]) / mu)
    return 2 * math.pi * math.sqrt(a**3 / mu)
