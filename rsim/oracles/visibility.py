"""Independent, three-valued evaluation of every sensor constraint (C02).

Every inequality the repo evaluates is re-evaluated here from the captured sensor / target states
with rsim's own frames and formulas and a guard band: ``True`` (satisfied), ``False`` (fails),
``None`` (within the band: the oracle abstains).
"""

from __future__ import annotations

import datetime as dt
import math

import numpy as np

from . import geom

RE = geom.RE
ATMOSPHERE = 100.0
R_SUN = 696000.0
AU = 1.49599e8
C_LIGHT = 2.99792458e8
SUN_ABS_MAG = -26.74           # data of the repo's Sun model
GAL_RA, GAL_DEC = 4.649850924403647, math.radians(-29.007805555555555556)   # galactic centre (data)

ANG_BAND = 1e-6                # rad: angles computed from the same rotation
SUN_BAND = 5e-4                # rad: where the oracle's low-precision analytic Sun enters
RANGE_BAND = 1e-6              # km


def tri(value: float, limit: float, band: float, sense: str):
    """value <sense> limit with a guard band -> True / False / None."""
    if abs(value - limit) <= band:
        return None
    return value <= limit if sense == "<=" else value >= limit


def ecef_to_geodetic(r):
    """Iterative geodetic latitude / longitude / height on the reference ellipsoid."""
    x, y, z = float(r[0]), float(r[1]), float(r[2])
    lon = math.atan2(y, x)
    p = math.hypot(x, y)
    e2 = geom.ECC**2
    lat = math.atan2(z, p * (1 - e2))
    for _ in range(12):
        s = math.sin(lat)
        n = RE / math.sqrt(1 - e2 * s * s)
        lat = math.atan2(z + e2 * n * s, p)
    s = math.sin(lat)
    n = RE / math.sqrt(1 - e2 * s * s)
    h = p / math.cos(lat) - n if abs(math.cos(lat)) > 1e-9 else abs(z) - n * (1 - e2)
    return lat, lon, h


def sun_position(when: dt.datetime) -> np.ndarray:
    """Low-precision analytic Sun (Vallado alg. 29, precessed back to J2000; ~0.01 deg), km."""
    jd = 2415020.5 + ((when - dt.datetime(1900, 1, 1)).total_seconds()) / 86400.0
    t = (jd - 2451545.0) / 36525.0
    lam_m = math.radians((280.460 + 36000.771 * t) % 360.0)
    m = math.radians((357.5291092 + 35999.05034 * t) % 360.0)
    lam = lam_m + math.radians(1.914666471) * math.sin(m) + math.radians(0.019994643) * math.sin(2 * m)
    lam -= math.radians(1.3969713 * t)   # general precession in longitude: mean equinox of date -> J2000 (the repo's Sun is inertial)
    r = 1.000140612 - 0.016708617 * math.cos(m) - 0.000139589 * math.cos(2 * m)
    eps = math.radians(23.439291 - 0.0130042 * t)
    return AU * r * np.array([math.cos(lam), math.cos(eps) * math.sin(lam), math.sin(eps) * math.sin(lam)])


def topocentric(sensor_ecef6, target_ecef6):
    """az (0..2pi, from north towards east), el, range, range-rate of the target seen from the sensor."""
    lat, lon, _h = ecef_to_geodetic(sensor_ecef6[:3])
    B = geom.sez_basis(lat, lon)
    rho = B @ (np.asarray(target_ecef6[:3]) - np.asarray(sensor_ecef6[:3]))
    drho = B @ (np.asarray(target_ecef6[3:]) - np.asarray(sensor_ecef6[3:]))
    rng = float(np.linalg.norm(rho))
    el = math.asin(max(-1.0, min(1.0, rho[2] / rng)))
    if abs(el - math.pi / 2) < 1e-12:
        az = geom.wrap_2pi(math.atan2(drho[1], -drho[0]))
    else:
        az = geom.wrap_2pi(math.atan2(rho[1], -rho[0]))
    rr = float(rho @ drho) / rng
    return az, el, rng, rr, rho


def line_of_sight(r1, r2):
    """Segment r1-r2 versus the sphere of radius RE (closest point of the segment to the centre)."""
    r1, r2 = np.asarray(r1, dtype=float), np.asarray(r2, dtype=float)
    if min(float(np.linalg.norm(r1)), float(np.linalg.norm(r2))) < RE + 0.05:
        # an end point on (or, on the flattened Earth, inside) the reference sphere: the spherical test says
        # nothing useful about a site looking up; the horizon is then the elevation mask's business
        return None
    d = r2 - r1
    t = -float(r1 @ d) / float(d @ d)
    t = max(0.0, min(1.0, t))
    closest = float(np.linalg.norm(r1 + t * d))
    return tri(closest, RE, 1e-6, ">=")


def in_az_mask(az, lo, hi):
    """Three-valued; an azimuth within the band of north is both ~0 and ~2 pi (which one a computation lands on is rounding): abstain when that matters."""
    two_pi = 2 * math.pi
    if az < ANG_BAND or two_pi - az < ANG_BAND:
        alias = az + two_pi if az < ANG_BAND else az - two_pi
        a, b = _in_az_mask(az, lo, hi), _in_az_mask(alias, lo, hi)
        return a if a == b else None
    return _in_az_mask(az, lo, hi)


def _in_az_mask(az, lo, hi):
    if lo <= hi:
        a, b = tri(az, lo, ANG_BAND, ">="), tri(az, hi, ANG_BAND, "<=")
        if a is False or b is False:
            return False
        return None if a is None or b is None else True
    a, b = tri(az, lo, ANG_BAND, ">="), tri(az, hi, ANG_BAND, "<=")   # wraps through north: az >= lo or az <= hi
    if a is True or b is True:
        return True
    return None if a is None or b is None else False


def sun_fraction_positive(r_tgt, r_sun):
    """Is any part of the solar disc visible from the target (i.e. not in full umbra)?"""
    s = r_sun - r_tgt
    a = math.asin(R_SUN / float(np.linalg.norm(s)))
    b = math.asin(min(1.0, RE / float(np.linalg.norm(r_tgt))))
    c = geom.angle_between(-r_tgt, s)
    if float(np.linalg.norm(r_sun)) >= float(np.linalg.norm(s)):
        return True   # on the sunward side of the Earth
    if b <= a:
        return True
    return tri(c, b - a, SUN_BAND, ">=")


def judge(sensor: dict, tgt_eci, tgt_vcs, tgt_refl, pointing_eci, ecef_of, when: dt.datetime) -> dict:
    """Evaluate every constraint for one (sensor, target) pair.  ``sensor`` is the captured
    configuration + state *before* the call; ``ecef_of`` converts an ECI 6-vector at ``when``."""
    out = {}
    s_eci = np.asarray(sensor["eci"], dtype=float)
    s_ecef, t_ecef = ecef_of(s_eci), ecef_of(np.asarray(tgt_eci, dtype=float))
    az, el, rng, rr, rho = topocentric(s_ecef, t_ecef)
    out["measurement"] = {"azimuth_rad": az, "elevation_rad": el, "range_km": rng, "range_rate_km_p_sec": rr}
    # pointing (towards the estimate) and field of view
    p_ecef = ecef_of(np.asarray(pointing_eci, dtype=float))
    paz, pel, _prng, _prr, prho = topocentric(s_ecef, p_ecef)
    fov = sensor["fov"]
    if fov["shape"] == "conic":
        out["Field of View"] = tri(geom.angle_between(rho, prho), fov["cone"] / 2, ANG_BAND, "<=")
    else:
        daz = abs(geom.wrap_pi(paz - az))
        dele = abs(pel - el)
        a, b = tri(daz, fov["az"] / 2, ANG_BAND, "<="), tri(dele, fov["el"] / 2, ANG_BAND, "<=")
        out["Field of View"] = False if (a is False or b is False) else (None if (a is None or b is None) else True)
        if max(abs(el), abs(pel)) > math.radians(89.9):
            out["Field of View"] = None   # azimuth is ill-defined next to the zenith
    # slew: angle from the previous boresight to the new pointing vs. rate * time since last tasked
    need = geom.angle_between(np.asarray(sensor["boresight"], dtype=float), prho)
    out["Slew Rate/Distance to Target"] = tri(sensor["slew_rate"] * (sensor["time"] - sensor["last_tasked"]), need, ANG_BAND, ">=")
    out["Minimum Range"] = True if sensor["min_range"] is None else tri(rng, sensor["min_range"], RANGE_BAND, ">=")
    out["Maximum Range"] = True if sensor["max_range"] is None or math.isinf(sensor["max_range"]) else tri(rng, sensor["max_range"], RANGE_BAND, "<=")
    out["Line of Sight"] = line_of_sight(np.asarray(tgt_eci)[:3], s_eci[:3])
    lo, hi = sensor["el_mask"]
    a, b = tri(el, lo, ANG_BAND, ">="), tri(el, hi, ANG_BAND, "<=")
    out["Elevation Mask"] = False if (a is False or b is False) else (None if (a is None or b is None) else True)
    out["Azimuth Mask"] = in_az_mask(az, *sensor["az_mask"])
    if sensor["kind"] in ("Radar", "AdvRadar"):
        lam = C_LIGHT / sensor["tx_frequency"]
        rcs = 4 * math.pi * tgt_vcs**2 / lam**2
        # radar range equation with G = eta (pi D / lambda)^2:  R^4 = P eta^2 pi D^4 sigma / (64 lambda^2 Pmin)   [m]
        rmax_km = (sensor["tx_power"] * sensor["efficiency"] ** 2 * math.pi * sensor["diameter"] ** 4 * rcs / (64 * lam**2 * sensor["min_power"])) ** 0.25 / 1000.0
        out["Radar Sensitivity - Max Range"] = tri(rng, rmax_km, max(RANGE_BAND, 1e-9 * rmax_km), "<=")
    else:
        r_sun = sun_position(when)
        r_t = np.asarray(tgt_eci, dtype=float)[:3]
        out["Solar Flux"] = sun_fraction_positive(r_t, r_sun)
        los = r_t - s_eci[:3]
        phase = geom.angle_between(r_sun - r_t, s_eci[:3] - r_t)
        F = 2 * ((math.pi - phase) * math.cos(phase) + math.sin(phase)) / (3 * math.pi**2)
        arg = (tgt_vcs * 1e-6 * tgt_refl * F) / float(los @ los)
        if arg > 0:
            mag = SUN_ABS_MAG - 2.5 * math.log10(arg)
            out["Visual Magnitude"] = tri(mag, sensor["vismag"], 2e-3, "<=")
        else:
            out["Visual Magnitude"] = None
        gal = np.array([math.cos(GAL_DEC) * math.cos(GAL_RA), math.cos(GAL_DEC) * math.sin(GAL_RA), math.sin(GAL_DEC)])
        out["Galactic Exclusion Zone"] = tri(geom.angle_between(gal, los), math.pi / 30, ANG_BAND, ">=")
        if sensor["space"]:
            out["Space Sensor Illumination"] = tri(geom.angle_between(r_sun - r_t, los), math.pi / 12, SUN_BAND, ">=")
            limb = math.asin((RE + ATMOSPHERE) / float(np.linalg.norm(s_eci[:3]))) - math.pi / 2
            out["Limb of the Earth"] = tri(el, limb, ANG_BAND, ">=")
        else:
            out["Ground Sensor Illumination"] = tri(geom.angle_between(r_sun, s_eci[:3]), math.pi / 2 + math.pi / 12, SUN_BAND, ">=")
    return out
