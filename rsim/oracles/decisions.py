"""Reference models for tasking decisions and rewards (brute force; no code shared with the repo)."""

from __future__ import annotations

import itertools

import numpy as np

RTOL = 1e-12

INFO = {"FisherInformation", "ShannonInformation", "KLDivergence"}
STABILITY = {"LyapunovStability"}
SENSOR = {"SlewDistanceMinimization", "SlewDistanceMaximization", "SlewTimeMinimization", "SlewTimeMaximization"}
TARGET = {"TimeSinceObservation"}


def assignments(nt: int, ns: int):
    """All complete one-to-one assignments of an nt x ns matrix: min(nt, ns) pairs, no row/column reuse."""
    k = min(nt, ns)
    if nt <= ns:
        for cols in itertools.permutations(range(ns), k):
            yield tuple(zip(range(nt), cols))
    else:
        for rows in itertools.permutations(range(nt), k):
            yield tuple(zip(rows, range(ns)))


def eq(a: float, b: float, scale: float) -> bool:
    return abs(a - b) <= RTOL * max(1.0, scale)


def judge_assignment(R: np.ndarray, V: np.ndarray, D: np.ndarray):
    """MunkresDecision: D == A & V for a maximum-total complete assignment A of R (or of R masked by V)."""
    nt, ns = R.shape
    if D.sum(axis=0).max(initial=0) > 1 or D.sum(axis=1).max(initial=0) > 1:
        return "not-one-to-one", False, None
    scale = float(np.abs(R).sum()) if R.size else 1.0
    ok = False
    tie = False
    for M in (R, np.where(V, R, 0.0)):
        best = None
        opt = []
        for A in assignments(nt, ns):
            tot = float(sum(M[t, s] for t, s in A))
            if best is None or tot > best + RTOL * max(1.0, scale):
                best, opt = tot, [A]
            elif eq(tot, best, scale):
                opt.append(A)
        # distinct optimal *decisions* (after masking)
        decs = set()
        for A in opt:
            d = np.zeros_like(D)
            for t, s in A:
                d[t, s] = True
            decs.add((d & V).tobytes())
        if len(decs) > 1:
            tie = True
        if D.tobytes() in decs:
            ok = True
    return (None if ok else "not-a-maximum-total-assignment"), tie, assignment_margin(R, V)


def judge_greedy(R: np.ndarray, V: np.ndarray, D: np.ndarray):
    nt, ns = R.shape
    tie = False
    for s in range(ns):
        col = R[:, s]
        m = float(col.max())
        scale = float(np.abs(col).max())
        arg = [t for t in range(nt) if eq(float(col[t]), m, scale)]
        if len(arg) > 1:
            tie = True
        chosen = [t for t in range(nt) if D[t, s]]
        if len(chosen) > 1:
            return f"sensor column {s} tasked to {len(chosen)} targets", tie, None
        if chosen:
            if chosen[0] not in arg:
                return f"sensor column {s} tasked to row {chosen[0]} (reward {col[chosen[0]]}) but the column maximum is {m} at rows {arg}", tie, None
        elif all(V[t, s] for t in arg):
            return f"sensor column {s} not tasked although its highest-reward target(s) {arg} are visible", tie, None
    margin = np.inf
    for s in range(ns):
        col = np.sort(R[:, s])[::-1]
        if len(col) > 1:
            margin = min(margin, float(col[0] - col[1]) / max(1.0, float(np.abs(col).max())))
    return None, tie, margin


def judge_random(R, V, D):
    for s in range(D.shape[1]):
        n = int(D[:, s].sum())
        if n > 1:
            return f"sensor column {s} tasked to {n} targets", True, None
        if n == 0 and V[:, s].any():
            return f"sensor column {s} idle although it can see a target", True, None
    return None, True, None


def judge_all_visible(R, V, D):
    return (None if np.array_equal(D, V) else "decision differs from the visibility matrix"), False, np.inf


def assignment_margin(R: np.ndarray, V: np.ndarray) -> float:
    """Relative gap between the best total and the best total of an assignment giving a different masked decision."""
    nt, ns = R.shape
    scale = max(1.0, float(np.abs(R).sum()))
    tots = {}
    for A in assignments(nt, ns):
        d = np.zeros(R.shape, dtype=bool)
        for t, s in A:
            d[t, s] = True
        key = (d & V).tobytes()
        tot = float(sum(R[t, s] for t, s in A))
        tots[key] = max(tots.get(key, -np.inf), tot)
    vals = sorted(tots.values(), reverse=True)
    return np.inf if len(vals) < 2 else (vals[0] - vals[1]) / scale


POLICIES = {"MunkresDecision": judge_assignment, "MyopicNaiveGreedyDecision": judge_greedy, "RandomDecision": judge_random, "AllVisibleDecision": judge_all_visible}


def reference_reward(reward_cls: str, names: list[str], metrics: np.ndarray, delta) -> np.ndarray:
    """The documented combination of (normalised) metrics; ``metrics`` has shape (T, S, M)."""
    def pick(group):
        idx = [i for i, n in enumerate(names) if n in group]
        return metrics[..., idx].reshape(metrics.shape[0], metrics.shape[1]) if len(idx) == 1 else None

    if reward_cls == "SimpleSummationReward":
        return metrics.sum(axis=2)
    info, stab, sens = pick(INFO), pick(STABILITY), pick(SENSOR)
    if info is None or stab is None or sens is None:
        return None
    d = 0.85 if delta is None else float(delta)
    base = d * (np.sign(stab) + info) - (1.0 - d) * sens
    if reward_cls == "CostConstrainedReward":
        return base
    if reward_cls == "CombinedReward":
        beh = pick(TARGET)
        return None if beh is None else base + beh
    return None
