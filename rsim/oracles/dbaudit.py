"""SQL auditor for the output database, run on rows read by a fresh sqlite3 connection.

``audit(rows, expect)`` checks the statement of C09 against what the run *should* have stored,
derived by the harness from exact integer time arithmetic and from the in-memory states captured
at every ``saveDatabaseOutput``.
"""

from __future__ import annotations

import datetime as dt

from . import exacttime as xt

COL = {
    "epochs": ("id", "timestampISO", "julian_date"),
    "truth_ephemerides": ("id", "pos_x_km", "pos_y_km", "pos_z_km", "vel_x_km_p_sec", "vel_y_km_p_sec", "vel_z_km_p_sec", "julian_date", "agent_id"),
}


def cols(con_rows, table, names):
    return con_rows.get(table, [])


def audit(db: dict, colnames: dict, expect: dict, viol: list, cnt: dict):
    """db: table -> list of row tuples; colnames: table -> column names; expect: see C09."""
    def col(table, name):
        return colnames[table].index(name)

    def v(clause, key, detail):
        viol.append({"clause": clause, "key": key, "detail": detail})

    S_us, step_us = expect["start_us"], expect["step_us"]
    # 1. epochs
    ep = db.get("epochs", [])
    ci, cj = col("epochs", "timestampISO"), col("epochs", "julian_date")
    by_jd = {}
    seen_ts = set()
    last = None
    for r in sorted(ep, key=lambda r: r[cj]):
        iso, jd = r[ci], r[cj]
        if iso in seen_ts:
            v("epoch-duplicate", "timestamp", f"epoch {iso} stored twice")
        seen_ts.add(iso)
        if jd in by_jd:
            v("epoch-duplicate", "julian-date", f"julian date {jd!r} stored twice")
        us = xt.to_us(dt.datetime.fromisoformat(iso))
        off = us - S_us
        if off < 0 or off % step_us:
            v("epoch-off-grid", "grid", f"epoch {iso} is not start + k*step")
        if not xt.jd_close(jd, us):
            v("epoch-jd-mismatch", "jd", f"epoch {iso} has julian_date {jd!r} ({xt.jd_err_days(jd, us):.2e} day off)")
        if last is not None and not jd > last:
            v("epoch-order", "order", f"epoch julian dates not strictly increasing at {iso}")
        last = jd
        by_jd[jd] = off // step_us if off % step_us == 0 else None
    agents = {r[col("agents", "unique_id")] for r in db.get("agents", [])}

    # 2. referential consistency of every table
    for table in ("truth_ephemerides", "estimate_ephemerides", "observations", "missed_observations", "tasks", "detected_maneuvers", "filterstep"):
        rows = db.get(table, [])
        if not rows:
            continue
        jc = col(table, "julian_date")
        acols = [c for c in ("agent_id", "sensor_id", "target_id") if c in colnames[table]]
        dangling = [r for r in rows if r[jc] not in by_jd]
        if dangling:
            v("dangling-epoch", table, f"{len(dangling)} of {len(rows)} rows of {table} refer to a julian date with no epoch row (e.g. {dangling[0][jc]!r}); "
                                       f"nearest epoch differs by {min((abs(dangling[0][jc] - j) for j in by_jd), default=float('nan')):.3e} day")
        for c in acols:
            ai = col(table, c)
            bad = [r for r in rows if r[ai] not in agents]
            if bad:
                v("dangling-agent", table, f"{len(bad)} rows of {table} refer to unknown agent {bad[0][ai]} via {c}")
        cnt[f"rows_{table}"] = cnt.get(f"rows_{table}", 0) + len(rows)
    # 2b. duplicate-free: one row per natural key (observations are exempt: under the all-visible policy a sensor can observe a target both as the
    #     primary of one job and serendipitously in another job of the same step)
    for table, key in (("detected_maneuvers", ("julian_date", "target_id")), ("filterstep", ("julian_date", "target_id")),
                       ("tasks", ("julian_date", "target_id", "sensor_id")), ("missed_observations", ("julian_date", "sensor_id", "target_id"))):
        rows = db.get(table, [])
        if not rows or any(c not in colnames.get(table, []) for c in key):
            continue
        idx = [col(table, c) for c in key]
        seen, dup = set(), []
        for r in rows:
            kk = tuple(r[i] for i in idx)
            if kk in seen:
                dup.append(kk)
            seen.add(kk)
        if dup:
            v("duplicate-rows", table, f"{len(dup)} of {len(rows)} rows of {table} repeat an earlier row's {key} (e.g. {dup[0]})")
    sfs = db.get("sequential_filter_step", [])
    if sfs:
        fids = {r[col("filterstep", "id")] for r in db.get("filterstep", [])}
        bad = [r for r in sfs if r[col("sequential_filter_step", "id")] not in fids]
        if bad:
            v("dangling-filterstep", "sequential_filter_step", f"{len(bad)} sequential_filter_step rows without a filterstep parent")

    # 3. completeness: one truth row per live agent and one estimate row per tracked target at every saved epoch
    tr = db.get("truth_ephemerides", [])
    tj, ta = col("truth_ephemerides", "julian_date"), col("truth_ephemerides", "agent_id")
    got_truth = {}
    for r in tr:
        k = by_jd.get(r[tj])
        got_truth.setdefault(k, []).append(r[ta])
    er = db.get("estimate_ephemerides", [])
    got_est = {}
    if er:
        ej, ea = col("estimate_ephemerides", "julian_date"), col("estimate_ephemerides", "agent_id")
        for r in er:
            got_est.setdefault(by_jd.get(r[ej]), []).append(r[ea])
    for k, exp in expect["saves"].items():
        have = sorted(got_truth.get(k, []))
        if have != sorted(exp["truth_agents"]):
            v("truth-rows", "count", f"epoch k={k}: truth rows for agents {have}, expected exactly one each for {sorted(exp['truth_agents'])}")
        if exp["estimates"] is not None:
            have_e = sorted(got_est.get(k, []))
            if have_e != sorted(exp["estimates"]):
                v("estimate-rows", "count", f"epoch k={k}: estimate rows for {have_e}, expected exactly one each for {sorted(exp['estimates'])}")
    extra_k = sorted(k for k in got_truth if k not in expect["saves"] and k is not None)
    if extra_k:
        v("truth-rows", "unexpected-epoch", f"truth rows stored at epochs k={extra_k[:6]} that are not output epochs {sorted(expect['saves'])[:8]}")
    need_epochs = set(expect["saves"]) | set(range(0, expect["ncfg"] + 1))
    missing = sorted(need_epochs - {k for k in by_jd.values() if k is not None})
    if missing:
        v("epoch-missing", "missing", f"no epoch row for k={missing[:8]}")

    # 4. values read back equal the values the simulation held
    px = [col("truth_ephemerides", c) for c in ("pos_x_km", "pos_y_km", "pos_z_km", "vel_x_km_p_sec", "vel_y_km_p_sec", "vel_z_km_p_sec")]
    for r in tr:
        k = by_jd.get(r[tj])
        held = expect["saves"].get(k, {}).get("truth_states", {}).get(r[ta])
        if held is not None and [float(r[i]).hex() for i in px] != held:
            v("stored-value-differs", "truth", f"truth row of agent {r[ta]} at k={k} differs from the state held in memory at save time")
            break
    if er:
        ex = [col("estimate_ephemerides", c) for c in ("pos_x_km", "pos_y_km", "pos_z_km", "vel_x_km_p_sec", "vel_y_km_p_sec", "vel_z_km_p_sec")]
        cv = [col("estimate_ephemerides", f"covar_{i}{j}") for i in range(6) for j in range(6)]
        for r in er:
            k = by_jd.get(r[ej])
            held = expect["saves"].get(k, {}).get("estimate_states", {}).get(r[ea])
            if held is not None:
                if [float(r[i]).hex() for i in ex] != held[0]:
                    v("stored-value-differs", "estimate", f"estimate row of {r[ea]} at k={k} differs from the state held in memory at save time")
                    break
                if [float(r[i]).hex() for i in cv] != held[1]:
                    v("stored-value-differs", "covariance", f"covariance row of {r[ea]} at k={k} differs from the covariance held in memory at save time")
                    break
