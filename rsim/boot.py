"""Install the simulator seams and import resonaate from /repo's working tree.

Must be imported before anything imports ``resonaate`` (or ``ray``).
"""

from __future__ import annotations

import logging
import os
import sys

REPO = os.environ.get("RSIM_REPO", "/repo")
REPO_SRC = os.path.join(REPO, "src")

os.environ.setdefault("OMP_NUM_THREADS", "1")
os.environ.setdefault("OPENBLAS_NUM_THREADS", "1")
os.environ.setdefault("MKL_NUM_THREADS", "1")
# guard variable for source hooks (none exist; the repo never reads it)
os.environ.setdefault("RESONAATE_VERIF", "1")

if "ray" in sys.modules and not getattr(sys.modules["ray"], "__version__", "").endswith("simray"):
    raise RuntimeError("rsim.boot must be imported before ray")

from . import simray  # noqa: E402

sys.modules["ray"] = simray
if REPO_SRC not in sys.path:
    sys.path.insert(0, REPO_SRC)

# silence the repo's logger: a pre-installed handler stops Logger() from adding a stdout handler
_lg = logging.getLogger("resonaate")
_lg.addHandler(logging.NullHandler())
_lg.setLevel(logging.CRITICAL + 10)
_lg.propagate = False

import warnings  # noqa: E402

warnings.filterwarnings("ignore")

import numpy as _np  # noqa: E402

import resonaate  # noqa: E402,F401

if not os.path.realpath(resonaate.__file__).startswith(os.path.realpath(REPO_SRC)):
    raise RuntimeError(f"resonaate imported from {resonaate.__file__}, expected {REPO_SRC}")

from resonaate.data import db_connection as _dbc  # noqa: E402
from resonaate.parallel.key_value_store import KeyValueStore as _KVS  # noqa: E402


def reset_process_state(schedule=None, job_seed=None):
    """Forget every per-run global so that a run starts from the state of a fresh interpreter."""
    simray.reset(schedule, job_seed)
    _KVS._client_map.clear()  # noqa: SLF001
    _dbc._GetDBConnection._GetDBConnection__cached_interfaces.clear()  # noqa: SLF001
    _np.seterr(all="ignore")


def warm():
    """Touch the expensive caches once in the parent (nutation series, EOP table, geopotential)."""
    from datetime import datetime

    from resonaate.physics.transforms.methods import ecef2eci
    from resonaate.physics.transforms.reductions import ReductionParams

    ReductionParams.build(datetime(2020, 1, 1, 0, 0, 0))
    ecef2eci(_np.array([7000.0, 0, 0, 0, 0, 0]), datetime(2020, 1, 1, 0, 0, 0))
