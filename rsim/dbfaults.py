"""Fault seam on the output database: SQLAlchemy engine / session events.

Counts every statement the run sends to the *output* database (ResonaateDatabase, not the read-only
importer), takes a durable-state snapshot after every commit, and can inject at the n-th
statement or at the n-th commit: a hard kill (``os._exit`` - no finally, no rollback: the SQLite
file and its journal are left exactly as the OS has them), an interrupt (``KeyboardInterrupt``
unwinding through the repo's code) or a database error (``sqlalchemy.exc.OperationalError``:
disk I/O error / database or disk is full / database is locked).
"""

from __future__ import annotations

import hashlib
import os
import sqlite3

from .run import wrap_method

PLAN = {"kind": None, "at_stmt": None, "at_commit": None, "message": "disk I/O error"}
STATE = {"stmts": 0, "commits": 0, "snapshots": [], "stmt_at_commit": [], "path": None, "fired": None, "on_snapshot": None}
_INSTALLED = {"done": False}

TABLES = ["agents", "epochs", "truth_ephemerides", "estimate_ephemerides", "observations", "missed_observations", "tasks",
          "detected_maneuvers", "filterstep", "sequential_filter_step", "particle_filter_step", "events"]


def reset(plan=None):
    PLAN.update({"kind": None, "at_stmt": None, "at_commit": None, "message": "disk I/O error", "sidecar": None})
    if plan:
        PLAN.update(plan)
    STATE.update({"stmts": 0, "commits": 0, "snapshots": [], "stmt_at_commit": [], "path": None, "fired": None})


def table_rows(path: str) -> dict:
    """All rows of all tables as read by a *fresh* connection (what is durable right now)."""
    con = sqlite3.connect(path, timeout=5.0)
    try:
        out = {}
        names = {r[0] for r in con.execute("select name from sqlite_master where type='table'")}
        for t in TABLES:
            if t in names:
                out[t] = con.execute(f"select * from {t} order by 1").fetchall()  # noqa: S608
        return out
    finally:
        con.close()


def table_columns(path: str) -> dict:
    con = sqlite3.connect(path, timeout=5.0)
    try:
        names = [r[0] for r in con.execute("select name from sqlite_master where type='table'")]
        return {t: [r[1] for r in con.execute(f"pragma table_info({t})")] for t in names}  # noqa: S608
    finally:
        con.close()


def digest_rows(rows: dict) -> str:
    h = hashlib.sha256()
    for t in sorted(rows):
        h.update(t.encode())
        for r in rows[t]:
            h.update(repr(tuple(float(x).hex() if isinstance(x, float) else x for x in r)).encode())
    return h.hexdigest()[:20]


def _fire(where: str):
    kind = PLAN["kind"]
    STATE["fired"] = (kind, where, STATE["stmts"], STATE["commits"])
    if PLAN.get("sidecar"):
        import json

        with open(PLAN["sidecar"], "w") as f:
            json.dump({"kind": kind, "where": where, "stmts": STATE["stmts"], "commits": STATE["commits"]}, f)
            f.flush()
            os.fsync(f.fileno())
    if kind == "kill":
        os._exit(137)
    if kind == "interrupt":
        raise KeyboardInterrupt(f"rsim: injected interrupt at {where}")
    if kind == "error":
        from sqlalchemy.exc import OperationalError

        raise OperationalError("<rsim injected>", {}, sqlite3.OperationalError(PLAN["message"]))


def install():
    if _INSTALLED["done"]:
        return
    _INSTALLED["done"] = True
    from sqlalchemy import event
    from sqlalchemy.orm import Session

    from resonaate.data.data_interface import DataInterface

    def after_init(self, tok, res, db_path, *a, **k):
        if type(self).__name__ != "ResonaateDatabase":
            return
        eng = self.engine
        STATE["path"] = eng.url.database

        def before_exec(conn, cursor, statement, parameters, context, executemany):
            STATE["stmts"] += 1
            if PLAN["kind"] and PLAN["at_stmt"] is not None and STATE["stmts"] == PLAN["at_stmt"]:
                _fire(f"statement {STATE['stmts']}: {statement[:40]}")

        def on_commit(conn):
            # fires before the DBAPI commit: a fault here means the transaction never became durable
            if PLAN["kind"] and PLAN["at_commit"] is not None and STATE["commits"] + 1 == PLAN["at_commit"]:
                _fire(f"commit {STATE['commits'] + 1}")

        event.listen(eng, "before_cursor_execute", before_exec)
        event.listen(eng, "commit", on_commit)

    wrap_method(DataInterface, "__init__", after=after_init)

    def after_commit(session):
        bind = session.get_bind()
        if STATE["path"] is None or bind.url.database != STATE["path"]:
            return
        STATE["commits"] += 1
        STATE["stmt_at_commit"].append(STATE["stmts"])
        if STATE.get("record_snapshots", True) and os.path.exists(STATE["path"]):
            rows = table_rows(STATE["path"])
            STATE["snapshots"].append(rows)

    event.listen(Session, "after_commit", after_commit)
