"""Importer-file builder (fault planner for external data): turns the output database of a
realtime run into an importer database and applies seeded mutations directly with sqlite3 -
missing rows at chosen (agent, epoch) cells, whole agents dropped, unrelated extra agents,
duplicated rows, shuffled physical row order, equivalent angle representations."""

from __future__ import annotations

import hashlib
import math
import os
import shutil
import sqlite3


def sha256(path: str) -> str:
    h = hashlib.sha256()
    with open(path, "rb") as f:
        for chunk in iter(lambda: f.read(1 << 20), b""):
            h.update(chunk)
    return h.hexdigest()


def epochs_of(path: str) -> list[tuple[float, str]]:
    con = sqlite3.connect(path)
    try:
        return con.execute("select julian_date, timestampISO from epochs order by julian_date").fetchall()
    finally:
        con.close()


def build(src: str, dst: str, mutations: list[dict], readonly: bool = False) -> dict:
    """Copy ``src`` to ``dst`` and apply ``mutations``; returns a summary of what the file now holds."""
    shutil.copyfile(src, dst)
    con = sqlite3.connect(dst)
    try:
        eps = con.execute("select julian_date, timestampISO from epochs order by julian_date").fetchall()
        for m in mutations:
            op = m["op"]
            if op == "delete":            # gap at one (agent, epoch) cell
                con.execute("delete from truth_ephemerides where agent_id = ? and julian_date = ?", (m["agent"], eps[m["k"]][0]))
            elif op == "drop_agent":      # subset: an agent has no ephemeris at all
                con.execute("delete from truth_ephemerides where agent_id = ?", (m["agent"],))
            elif op == "add_agents":      # superset: unrelated agents with rows at every epoch
                for i in range(m["n"]):
                    aid = 70001 + i
                    con.execute("insert into agents (unique_id, name) values (?, ?)", (aid, f"extra{aid}"))
                    for jd, _iso in eps:
                        con.execute("insert into truth_ephemerides (julian_date, agent_id, pos_x_km, pos_y_km, pos_z_km, vel_x_km_p_sec, vel_y_km_p_sec, vel_z_km_p_sec) "
                                    "values (?, ?, ?, ?, ?, ?, ?, ?)", (jd, aid, 7000.0 + i, 100.0, -50.0, 0.1, 7.4, 0.2))
            elif op == "dup":             # the same (agent, epoch) row stored twice
                row = con.execute("select julian_date, agent_id, pos_x_km, pos_y_km, pos_z_km, vel_x_km_p_sec, vel_y_km_p_sec, vel_z_km_p_sec from truth_ephemerides "
                                  "where agent_id = ? and julian_date = ?", (m["agent"], eps[m["k"]][0])).fetchone()
                if row:
                    con.execute("insert into truth_ephemerides (julian_date, agent_id, pos_x_km, pos_y_km, pos_z_km, vel_x_km_p_sec, vel_y_km_p_sec, vel_z_km_p_sec) values (?,?,?,?,?,?,?,?)", row)
            elif op == "shuffle":         # physical row order reversed / interleaved
                for table in ("truth_ephemerides", "observations"):
                    cols = [r[1] for r in con.execute(f"pragma table_info({table})")]
                    rows = con.execute(f"select * from {table}").fetchall()  # noqa: S608
                    if not rows:
                        continue
                    rows = rows[::-1] if m.get("how", "reverse") == "reverse" else rows[1::2] + rows[0::2]
                    idx = cols.index("id")
                    con.execute(f"delete from {table}")  # noqa: S608
                    for n, r in enumerate(rows, start=1):
                        r = list(r)
                        r[idx] = n
                        con.execute(f"insert into {table} ({','.join(cols)}) values ({','.join('?' * len(cols))})", r)  # noqa: S608
            elif op == "angles":          # re-represent stored azimuths: + 2*pi*k, or wrap point moved to (-pi, pi]
                rows = con.execute("select id, azimuth_rad from observations").fetchall()
                for oid, az in rows:
                    if az is None:
                        continue
                    new = az + 2 * math.pi * m.get("turns", 0)
                    if m.get("signed") and m.get("turns", 0) == 0 and az > math.pi:
                        new = az - 2 * math.pi
                    con.execute("update observations set azimuth_rad = ? where id = ?", (new, oid))
            elif op == "shift_sensor":    # the importer's ephemeris of a sensor differs from where its stored observations were taken from
                con.execute("update truth_ephemerides set pos_x_km = pos_x_km + ?, pos_y_km = pos_y_km + ?, pos_z_km = pos_z_km + ? where agent_id = ?",
                            (m["d"][0], m["d"][1], m["d"][2], m["agent"]))
            elif op == "shift_obs_sensor":  # stored observations were taken from a position a few km from where the sensor is in the importing run
                con.execute("update observations set pos_x_km = pos_x_km + ?, pos_y_km = pos_y_km + ?, pos_z_km = pos_z_km + ?", tuple(m["d"]))
            elif op == "drop_observations":
                con.execute("delete from observations")
            else:
                raise ValueError(op)
        con.commit()
        present = {}
        for jd, aid in con.execute("select julian_date, agent_id from truth_ephemerides"):
            present.setdefault(jd, set()).add(aid)
        rows = {}
        for r in con.execute("select julian_date, agent_id, pos_x_km, pos_y_km, pos_z_km, vel_x_km_p_sec, vel_y_km_p_sec, vel_z_km_p_sec from truth_ephemerides order by id"):
            rows.setdefault((r[0], r[1]), []).append([float(x).hex() for x in r[2:]])
        obs = con.execute("select julian_date, sensor_id, target_id, azimuth_rad, elevation_rad, range_km, range_rate_km_p_sec, pos_x_km, pos_y_km, pos_z_km from observations order by id").fetchall()
    finally:
        con.close()
    if readonly:
        os.chmod(dst, 0o444)
    return {"epochs": eps, "present": present, "rows": rows, "observations": obs, "sha256": sha256(dst), "size": os.path.getsize(dst)}
