"""Probes: recording wrappers on public resonaate methods (observation without changing behaviour).

All records go to the module-level ``LOG`` (a list, reset per run by :func:`reset`) and carry the
global sequence number, the step index and the simulated time.  Jobs run in-process under simray,
so probes inside "remote" code are seen as well.
"""

from __future__ import annotations

import numpy as np

from .run import wrap_method

LOG: list[dict] = []
STATE = {"step": 0, "seq": 0, "app": None}


def reset():
    LOG.clear()
    STATE["step"] = 0
    STATE["seq"] = 0
    STATE["app"] = None


def rec(kind: str, **kw):
    STATE["seq"] += 1
    kw["kind"] = kind
    kw["seq"] = STATE["seq"]
    kw["step"] = STATE["step"]
    LOG.append(kw)
    return kw


def of_kind(kind: str):
    return [r for r in LOG if r["kind"] == kind]


def snapshot_app(app) -> dict:
    snap = {
        "time": float(app.clock.time),
        "targets": {aid: np.array(a.eci_state, dtype=float).copy() for aid, a in app.target_agents.items()},
        "target_time": {aid: float(a.time) for aid, a in app.target_agents.items()},
        "sensors": {aid: np.array(a.eci_state, dtype=float).copy() for aid, a in app.sensor_agents.items()},
        "sensor_time": {aid: float(a.time) for aid, a in app.sensor_agents.items()},
        "sensor_lla": {aid: np.array(a.lla_state, dtype=float).copy() for aid, a in app.sensor_agents.items()},
        "boresight": {aid: np.array(a.sensors.boresight, dtype=float).copy() for aid, a in app.sensor_agents.items()},
        "last_tasked": {aid: float(a.sensors.time_last_tasked) for aid, a in app.sensor_agents.items()},
        "engines": {eid: {"targets": list(e.target_list), "sensors": list(e.sensor_list)} for eid, e in app.tasking_engines.items()},
        "bias_queue": {aid: [ev.id for ev in a.sensor_time_bias_event_queue] for aid, a in app.sensor_agents.items()},
    }
    if not app.scenario_config.propagation.truth_simulation_only:
        snap["estimates"] = {aid: (np.array(e.state_estimate, dtype=float).copy(), np.array(e.error_covariance, dtype=float).copy())
                             for aid, e in app.estimate_agents.items()}
        snap["estimate_time"] = {aid: float(e.time) for aid, e in app.estimate_agents.items()}
    return snap


def install_step_recorder():
    """Record a snapshot of the scenario after construction and after every stepForward."""
    from resonaate.scenario.scenario import Scenario

    def before_step(self, *a, **k):
        STATE["step"] += 1
        STATE["app"] = self
        if not any(r["kind"] == "snap" for r in LOG):
            rec("snap", k=0, **snapshot_app(self))
        return None

    def after_step(self, tok, res, *a, **k):
        rec("snap", k=STATE["step"], **snapshot_app(self))

    wrap_method(Scenario, "stepForward", before=before_step, after=after_step)

    def after_save(self, tok, res, *a, **k):
        rec("save", time=float(self.clock.time))

    wrap_method(Scenario, "saveDatabaseOutput", after=after_save)


def install_event_recorder():
    """Delivery ledger: one record per ``handleEvent`` call of any Event subclass."""
    from resonaate.data.events import Event

    def make_before(cls_name):
        def before(self, scope_instance, *a, **k):
            hid = getattr(scope_instance, "simulation_id", None)
            if hid is None:
                hid = getattr(scope_instance, "unique_id", None)
            rec("deliver", event_id=self.id, event_type=self.event_type, event_cls=cls_name,
                handler_type=type(scope_instance).__name__, handler_id=hid,
                scope_instance_id=self.scope_instance_id, start_jd=self.start_time_jd, end_jd=self.end_time_jd)
        return before

    Event._generateRegistry()  # noqa: SLF001
    for sub in Event.__subclasses__():
        if "handleEvent" in sub.__dict__:
            wrap_method(sub, "handleEvent", before=make_before(sub.__name__))


def install_tasking_recorder():
    """Semantic endpoints of one engine assessment: the reward the policy documents
    (``Reward.calculate`` return value), the reward/visibility matrices the decision actually
    receives, the decision it returns, and the task jobs submitted."""
    from resonaate.tasking.decisions.decision_base import Decision
    from resonaate.tasking.engine.centralized_engine import CentralizedTaskingEngine
    from resonaate.tasking.rewards.reward_base import Reward

    def before_assess(self, *a, **k):
        STATE["engine"] = self.unique_id
        rec("assess_begin", engine=self.unique_id, targets=list(self.target_list), sensors=list(self.sensor_list))

    def after_assess(self, tok, res, *a, **k):
        rec("assess_end", engine=self.unique_id, targets=list(self.target_list), sensors=list(self.sensor_list),
            visibility=np.array(self.visibility_matrix).copy(), reward=np.array(self.reward_matrix, dtype=float).copy(),
            decision=np.array(self.decision_matrix).copy(), n_obs=len(self.observations), n_missed=len(self.missed_observations))
        STATE["engine"] = None

    wrap_method(CentralizedTaskingEngine, "assess", before=before_assess, after=after_assess)

    def before_norm(self, metric_matrix, *a, **k):
        rec("metrics_raw", engine=STATE.get("engine"), metrics=np.array(metric_matrix, dtype=float).copy(), names=[type(m).__name__ for m in self.metrics])

    wrap_method(Reward, "normalizeMetrics", before=before_norm)

    def after_calc(self, tok, res, metric_matrix, *a, **k):
        rec("reward_calc", engine=STATE.get("engine"), reward_cls=type(self).__name__, metrics=np.array(metric_matrix, dtype=float).copy(),
            names=[type(m).__name__ for m in self.metrics], types=[str(getattr(m.metric_type, "value", m.metric_type)) for m in self.metrics],
            delta=getattr(self, "_delta", None), value=np.array(res, dtype=float).copy())

    for sub in Reward.__subclasses__():
        if "calculate" in sub.__dict__:
            wrap_method(sub, "calculate", after=after_calc)

    def before_dec(self, reward_matrix, visibility_matrix, *a, **k):
        rec("decision_in", engine=STATE.get("engine"), policy=type(self).__name__, reward=np.array(reward_matrix, dtype=float).copy(),
            visibility=np.array(visibility_matrix).copy())

    def after_dec(self, tok, res, reward_matrix, visibility_matrix, *a, **k):
        rec("decision_out", engine=STATE.get("engine"), policy=type(self).__name__, decision=np.array(res).copy())

    wrap_method(Decision, "calculate", before=before_dec, after=after_dec)
