"""Command line: ``python -m rsim check C05 --tier quick`` / ``python -m rsim replay <file>``."""

from __future__ import annotations

import argparse
import importlib
import json
import os
import sys


def _ensure_hashseed():
    # dict/set iteration of str keys must not be a hidden source of nondeterminism: pin it
    if os.environ.get("PYTHONHASHSEED") is None:
        os.environ["PYTHONHASHSEED"] = "0"
        os.execv(sys.executable, [sys.executable, "-m", "rsim", *sys.argv[1:]])


def load_check(pid: str):
    from . import boot  # noqa: F401  (installs the seams, imports resonaate from /repo)

    boot.warm()
    mod = importlib.import_module(f"rsim.checks.{pid}")
    return mod.CHECK


def main(argv=None) -> int:
    ap = argparse.ArgumentParser(prog="rsim")
    sub = ap.add_subparsers(dest="cmd", required=True)
    c = sub.add_parser("check")
    c.add_argument("pid")
    c.add_argument("--tier", default=os.environ.get("VERIF_TIER", "quick"), choices=["quick", "thorough"])
    c.add_argument("--seed", type=int, default=None)
    c.add_argument("--budget", type=float, default=None)
    c.add_argument("--max-runs", type=int, default=None)
    c.add_argument("--slots", type=int, default=None)
    c.add_argument("--no-evidence", action="store_true")
    r = sub.add_parser("replay")
    r.add_argument("path")
    s = sub.add_parser("selftest")
    s.add_argument("--quick", action="store_true")
    args = ap.parse_args(argv)
    _ensure_hashseed()
    from .core import HarnessError, replay, run_check

    try:
        if args.cmd == "check":
            seed = args.seed if args.seed is not None else int(os.environ.get("VERIF_SEED", "0") or 0)
            check = load_check(args.pid)
            return run_check(check, args.tier, seed, budget_s=args.budget, slots=args.slots, max_runs=args.max_runs,
                             write_evidence=not args.no_evidence)
        if args.cmd == "replay":
            with open(args.path) as f:
                doc = json.load(f)
            check = load_check(doc["property"])
            return replay(check, args.path)
        if args.cmd == "selftest":
            from .selftest import main as st_main

            return st_main(quick=args.quick)
    except HarnessError as exc:
        print(f"[rsim] HARNESS ERROR: {exc}")
        return 2
    except Exception:  # noqa: BLE001
        import traceback

        traceback.print_exc()
        print("[rsim] HARNESS ERROR (unexpected exception in driver); no verdict")
        return 2
    return 2


if __name__ == "__main__":
    sys.exit(main())
